#!/bin/bash
# tools/confirm_seed.sh <Cxx> : independently confirm every candidate change under /tmp/seed/out/<Cxx>/m*/ in the
# scratch worktree /tmp/seed/<Cxx>: demo passes on the clean tree, baseline suite passes with the change,
# demo fails with the change. Writes confirm.json next to each candidate. Never touches /repo.
PID="$1"; W=/tmp/seed/$PID; OUT=${SEED_OUT:-/tmp/seed/out}/$PID
export CARGO_NET_OFFLINE=true
cd "$W" || exit 2
for d in "$OUT"/m*/; do
  k=$(basename "$d")
  [[ -f "$d/patch.diff" && -f "$d/demo.rs" ]] || continue
  git checkout -q -- . ; rm -f tests/demo_seed.rs
  if ! git apply --check "$d/patch.diff" 2>/dev/null; then echo "{\"applies\": false}" > "$d/confirm.json"; continue; fi
  cp "$d/demo.rs" tests/demo_seed.rs
  cargo test --offline --test demo_seed >"$d/demo_clean.log" 2>&1; clean_rc=$?
  git apply "$d/patch.diff"
  cargo nextest run --workspace --no-fail-fast --tool-config-file pb:/w/lib/nextest.toml --profile pb --test-threads 8 --offline -E 'not binary(demo_seed)' >"$d/suite_mut.log" 2>&1; suite_rc=$?
  passed=$(grep -oE '[0-9]+ passed' "$d/suite_mut.log" | tail -1 | grep -oE '[0-9]+')
  cargo test --offline --test demo_seed >"$d/demo_mut.log" 2>&1; mut_rc=$?
  git checkout -q -- . ; rm -f tests/demo_seed.rs
  echo "{\"applies\": true, \"demo_passes_clean\": $([[ $clean_rc == 0 ]] && echo true || echo false), \"suite_rc_with_change\": $suite_rc, \"suite_passed\": ${passed:-0}, \"demo_fails_with_change\": $([[ $mut_rc != 0 ]] && echo true || echo false)}" > "$d/confirm.json"
  echo "$PID/$k: $(cat $d/confirm.json)"
done
