#!/usr/bin/env python3
"""Regenerate the table of DESIGN.md section 10.4 from the evidence files of the last run (one row per property:
cases, transitions, distinct outcomes, wall time, number of slices, the three largest slices by name)."""
import json, os, sys
HERE = os.path.dirname(os.path.dirname(os.path.abspath(__file__)))


def short(n):
    n = float(n)
    for unit, div in (("·10⁹", 1e9), ("·10⁶", 1e6), ("·10³", 1e3)):
        if n >= div:
            return f"{n / div:.1f}{unit}"
    return str(int(n))


rows = []
for i in range(1, 21):
    pid = f"C{i:02d}"
    e = json.load(open(os.path.join(HERE, "evidence", pid + ".json")))
    c = e["coverage"]
    sl = c.get("slices", [])
    big = sorted(sl, key=lambda s: -s.get("cases", 0))[:3]
    names = "; ".join(s["name"].split("[")[0] + " (" + short(s.get("cases", 0)) + ")" for s in big)
    rows.append(f"| {pid} | {e['tier']} | {short(c['evaluations'])} | {short(c['transitions'])} | {c['distinct_outcomes']} | {e['wall_s']:.0f} s | {len(sl)} | {'yes' if c['exhaustive'] else 'NO'} | {names} |")
print("| prop | tier | cases | implementation executions | distinct outcomes | wall | slices | every slice complete | largest slices |")
print("|---|---|---|---|---|---|---|---|---|")
print("\n".join(rows))
