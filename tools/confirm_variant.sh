#!/bin/bash
# tools/confirm_variant.sh <Cxx> : confirm every property-PRESERVING variant under $SEED_OUT/<Cxx>/e*/ in the scratch
# worktree /tmp/seed/<Cxx>: the demo passes completely on the clean tree; with the change the baseline suite passes,
# the test `observable_difference` fails (behaviour really changed) and every `property_still_holds_*` test passes.
# Writes confirm.json next to each candidate. Never touches /repo.
PID="$1"; W=/tmp/seed/$PID; OUT=${SEED_OUT:-/tmp/seed/outE}/$PID
export CARGO_NET_OFFLINE=true
cd "$W" || exit 2
for d in "$OUT"/e*/; do
  k=$(basename "$d")
  [[ -f "$d/patch.diff" && -f "$d/demo.rs" ]] || continue
  git checkout -q -- . ; rm -f tests/demo_seed.rs
  if ! git apply --check "$d/patch.diff" 2>/dev/null; then echo "{\"applies\": false}" > "$d/confirm.json"; continue; fi
  cp "$d/demo.rs" tests/demo_seed.rs
  cargo test --offline --test demo_seed >"$d/demo_clean.log" 2>&1; clean_rc=$?
  git apply "$d/patch.diff"
  cargo nextest run --workspace --no-fail-fast --tool-config-file pb:/w/lib/nextest.toml --profile pb --test-threads 8 --offline -E 'not binary(demo_seed)' >"$d/suite_mut.log" 2>&1; suite_rc=$?
  passed=$(grep -oE '[0-9]+ passed' "$d/suite_mut.log" | tail -1 | grep -oE '[0-9]+')
  cargo test --offline --test demo_seed observable_difference >"$d/demo_diff.log" 2>&1; diff_rc=$?
  cargo test --offline --test demo_seed property_still_holds >"$d/demo_prop.log" 2>&1; prop_rc=$?
  nprop=$(grep -oE '[0-9]+ passed' "$d/demo_prop.log" | tail -1 | grep -oE '[0-9]+')
  git checkout -q -- . ; rm -f tests/demo_seed.rs
  echo "{\"applies\": true, \"demo_passes_clean\": $([[ $clean_rc == 0 ]] && echo true || echo false), \"suite_rc_with_change\": $suite_rc, \"suite_passed\": ${passed:-0}, \"observable_difference_fails_with_change\": $([[ $diff_rc != 0 ]] && echo true || echo false), \"property_tests_pass_with_change\": $([[ $prop_rc == 0 ]] && echo true || echo false), \"property_tests\": ${nprop:-0}}" > "$d/confirm.json"
  echo "$PID/$k: $(cat $d/confirm.json)"
done
