#!/usr/bin/env python3
"""Copy confirmed property-PRESERVING variants from /tmp/seed/outE into /verif/variants/<id>/ with a meta.json that
records what observable behaviour the change alters, why the property still holds, what was run to confirm it
(tools/confirm_variant.sh) and what every check's quick tier said about it (tools/matrix.sh with MX_GLOB=e*;
/tmp/mx/E-*.txt). A variant is kept only if the suite passes, the observable-difference test fails with the change and
the property tests written by its author pass with and without it."""
import json, os, glob, shutil
HERE = os.path.dirname(os.path.dirname(os.path.abspath(__file__)))
det = {}
for f in sorted(glob.glob('/tmp/mx/E-*.txt')):
    for line in open(f):
        parts = line.split()
        if not parts or '/' not in parts[0]:
            continue
        key = parts[0].replace('/', '-')
        d = det.setdefault(key, {})
        for kv in parts[1:]:
            if '=' in kv:
                c, rc = kv.split('=')
                d[c] = int(rc)
# re-run against the final checks (tools/regress_variants.sh): id -> {check: rc}
reg = {}
for f in sorted(glob.glob('/tmp/mx/regvar-*.txt')):
    for line in open(f):
        parts = line.split()
        if len(parts) >= 2 and '=' in parts[1]:
            reg[parts[0]] = {kv.split('=')[0]: int(kv.split('=')[1]) for kv in parts[1:] if '=' in kv}
n = 0
for d in sorted(glob.glob('/tmp/seed/outE/C*/e*/')):
    pid, k = d.rstrip('/').split('/')[-2:]
    conf = os.path.join(d, 'confirm.json')
    if not os.path.exists(conf):
        continue
    c = json.load(open(conf))
    ok = c.get('applies') and c.get('demo_passes_clean') and c.get('suite_rc_with_change') == 0 and c.get('suite_passed') == 127 and c.get('observable_difference_fails_with_change') and c.get('property_tests_pass_with_change')
    if not ok:
        print("not kept:", pid, k, c)
        continue
    sid = f"{pid}-{k}"
    out = os.path.join(HERE, 'variants', sid)
    os.makedirs(out, exist_ok=True)
    shutil.copy(os.path.join(d, 'patch.diff'), os.path.join(out, 'patch.diff'))
    shutil.copy(os.path.join(d, 'demo.rs'), os.path.join(out, 'demo.rs'))
    try:
        am = json.load(open(os.path.join(d, 'meta.json')))
    except Exception:
        am = {}
    checks = det.get(sid, {})
    meta = {
        "id": sid,
        "written_for_property": pid,
        "summary": am.get("summary", ""),
        "what_differs": am.get("what_differs", ""),
        "freedom_used": am.get("freedom_used", ""),
        "why_property_still_holds": am.get("why_property_still_holds", ""),
        "origin": "written by a fresh sub-agent that saw only the property text and a scratch worktree of /repo (nothing from /verif); asked for a change that alters what a public function returns for some well-formed input while the property, read literally and in full, still holds",
        "confirmed_in_scratch_worktree": {
            "commands": [
                "cp demo.rs tests/demo_seed.rs && cargo test --offline --test demo_seed   (clean tree: all tests pass)",
                "git apply patch.diff && cargo nextest run --workspace ... -E 'not binary(demo_seed)'   (127 passed)",
                "cargo test --offline --test demo_seed observable_difference   (with the change: fails - behaviour changed)",
                "cargo test --offline --test demo_seed property_still_holds   (with the change: passes)",
            ],
            "baseline_tests_passed": c.get('suite_passed'),
            "property_tests_by_author": c.get('property_tests'),
        },
        "quick_tier_of_every_check": {k2: ("VIOLATION" if v == 1 else ("quiet" if v == 0 else f"exit {v}")) for k2, v in sorted(checks.items())},
        "checks_run": len(checks),
        "false_alarms": sorted([k2 for k2, v in checks.items() if v != 0]),
    }
    if sid in reg:
        meta["rerun_with_the_final_checks"] = {k2: ("VIOLATION" if v == 1 else ("quiet" if v == 0 else f"exit {v}")) for k2, v in sorted(reg[sid].items())}
        meta["false_alarms"] = sorted(set(meta["false_alarms"]) | {k2 for k2, v in reg[sid].items() if v != 0})
    json.dump(meta, open(os.path.join(out, 'meta.json'), 'w'), indent=1)
    n += 1
print("kept", n)
