#!/usr/bin/env python3
"""Copy confirmed seeded changes from /tmp/seed/out into /verif/seeded/<id>/ with a meta.json that records
what the change breaks, what it needs to manifest, what was run to confirm it, and which checks detect it
(from the detection matrix /tmp/mx/matrix-*.txt and any re-runs recorded in /tmp/mx/rerun-*.txt)."""
import json, os, glob, shutil, re
HERE = os.path.dirname(os.path.dirname(os.path.abspath(__file__)))
det = {}
for f in sorted(glob.glob('/tmp/mx/matrix-*.txt')) + sorted(glob.glob('/tmp/mx/rerun-*.txt')):
    for line in open(f):
        parts = line.split()
        if not parts or '/' not in parts[0]:
            continue
        key = parts[0].replace('/', '-')
        d = det.setdefault(key, {})
        for kv in parts[1:]:
            if '=' in kv:
                c, rc = kv.split('=')
                d[c] = int(rc)
# round 2 ("deep" changes that must not manifest on tiny inputs): /tmp/seed/out2, ids Cxx-d<k>;
# r2-*.txt = current checks, old-*.txt = the checks as they were before the round-2 strengthening
det2, old2 = {}, {}
for tgt, pat in ((det2, '/tmp/mx/r2-*.txt'), (old2, '/tmp/mx/old-*.txt')):
    for f in sorted(glob.glob(pat)):
        for line in open(f):
            parts = line.split()
            if not parts or '/' not in parts[0]:
                continue
            key = parts[0].replace('/m', '-d')
            d = tgt.setdefault(key, {})
            for kv in parts[1:]:
                if '=' in kv:
                    c, rc = kv.split('=')
                    d[c] = int(rc)
det3, old3 = {}, {}
for tgt, pat in ((det3, '/tmp/mx/r3-*.txt'), (old3, '/tmp/mx/old3-*.txt')):
    for f in sorted(glob.glob(pat)):
        for line in open(f):
            parts = line.split()
            if not parts or '/' not in parts[0]:
                continue
            key = parts[0].replace('/m', '-s')
            d = tgt.setdefault(key, {})
            for kv in parts[1:]:
                if '=' in kv:
                    c, rc = kv.split('=')
                    d[c] = int(rc)
det4, old4 = {}, {}
for tgt, pat in ((det4, '/tmp/mx/r4-*.txt'), (old4, '/tmp/mx/old4-*.txt')):
    for f in sorted(glob.glob(pat)):
        for line in open(f):
            parts = line.split()
            if not parts or '/' not in parts[0]:
                continue
            key = parts[0].replace('/m', '-v')
            d = tgt.setdefault(key, {})
            for kv in parts[1:]:
                if '=' in kv:
                    c, rc = kv.split('=')
                    d[c] = int(rc)
# round 5: r5-*.txt = checks as they were when the round came in; r5x-* / r5y-* = related checks and re-runs after strengthening
det5, first5 = {}, {}
for tgt, pats in ((first5, ['/tmp/mx/r5-*.txt']), (det5, ['/tmp/mx/r5-*.txt', '/tmp/mx/r5x-*.txt', '/tmp/mx/r5y-*.txt'])):
    for pat in pats:
        for f in sorted(glob.glob(pat)):
            for line in open(f):
                parts = line.split()
                if not parts or '/' not in parts[0]:
                    continue
                key = parts[0].replace('/m', '-w')
                d = tgt.setdefault(key, {})
                for kv in parts[1:]:
                    if '=' in kv:
                        c, rc = kv.split('=')
                        d[c] = max(int(rc), d.get(c, 0)) if tgt is det5 else int(rc)
# round 6: r6-*.txt = checks as they were when the round came in; r6x-* / r6y-* = related checks and re-runs after strengthening
det6, first6 = {}, {}
for tgt, pats in ((first6, ['/tmp/mx/r6-*.txt']), (det6, ['/tmp/mx/r6-*.txt', '/tmp/mx/r6x-*.txt', '/tmp/mx/r6y-*.txt'])):
    for pat in pats:
        for f in sorted(glob.glob(pat)):
            for line in open(f):
                parts = line.split()
                if not parts or '/' not in parts[0]:
                    continue
                key = parts[0].replace('/m', '-x')
                d = tgt.setdefault(key, {})
                for kv in parts[1:]:
                    if '=' in kv:
                        c, rc = kv.split('=')
                        d[c] = max(int(rc), d.get(c, 0)) if tgt is det6 else int(rc)
# round 7 (one free-choice change per property, round-6 families excluded): r7-*.txt first run, r7y-*.txt re-runs
det7, first7 = {}, {}
for tgt, pats in ((first7, ['/tmp/mx/r7-*.txt']), (det7, ['/tmp/mx/r7-*.txt', '/tmp/mx/r7y-*.txt'])):
    for pat in pats:
        for f in sorted(glob.glob(pat)):
            for line in open(f):
                parts = line.split()
                if not parts or '/' not in parts[0]:
                    continue
                key = parts[0].replace('/m', '-y')
                d = tgt.setdefault(key, {})
                for kv in parts[1:]:
                    if '=' in kv:
                        c, rc = kv.split('=')
                        d[c] = max(int(rc), d.get(c, 0)) if tgt is det7 else int(rc)
# regression of every kept change against the final checks (tools/regress_seeded.sh): id -> {check: rc}
reg = {}
for f in sorted(glob.glob('/tmp/mx/regress-*.txt')):
    for line in open(f):
        parts = line.split()
        if len(parts) >= 2 and '=' in parts[1]:
            reg[parts[0]] = {kv.split('=')[0]: int(kv.split('=')[1]) for kv in parts[1:] if '=' in kv}
n = 0
for d in sorted(glob.glob('/tmp/seed/out/C*/m*/')) + sorted(glob.glob('/tmp/seed/out2/C*/m*/')) + sorted(glob.glob('/tmp/seed/out3/C*/m*/')) + sorted(glob.glob('/tmp/seed/out4/C*/m*/')) + sorted(glob.glob('/tmp/seed/out5/C*/m*/')) + sorted(glob.glob('/tmp/seed/out6/C*/m*/')) + sorted(glob.glob('/tmp/seed/out7/C*/m*/')):
    pid, k = d.rstrip('/').split('/')[-2:]
    round2 = '/out2/' in d
    round3 = '/out3/' in d
    if round2:
        k = k.replace('m', 'd')
    if round3:
        k = k.replace('m', 's')
    round4 = '/out4/' in d
    if round4:
        k = k.replace('m', 'v')
    round5 = '/out5/' in d
    if round5:
        k = k.replace('m', 'w')
    round6 = '/out6/' in d
    if round6:
        k = k.replace('m', 'x')
    round7 = '/out7/' in d
    if round7:
        k = k.replace('m', 'y')
    conf = os.path.join(d, 'confirm.json')
    if not os.path.exists(conf):
        continue
    c = json.load(open(conf))
    if not (c.get('applies') and c.get('demo_passes_clean') and c.get('suite_rc_with_change') == 0 and c.get('suite_passed') == 127 and c.get('demo_fails_with_change')):
        print("not kept:", pid, k, c)
        continue
    sid = f"{pid}-{k}"
    out = os.path.join(HERE, 'seeded', sid)
    os.makedirs(out, exist_ok=True)
    shutil.copy(os.path.join(d, 'patch.diff'), os.path.join(out, 'patch.diff'))
    shutil.copy(os.path.join(d, 'demo.rs'), os.path.join(out, 'demo.rs'))
    try:
        am = json.load(open(os.path.join(d, 'meta.json')))
    except Exception:
        am = {}
    checks = det2.get(sid, {}) if round2 else (det3.get(sid, {}) if round3 else (det4.get(sid, {}) if round4 else (det5.get(sid, {}) if round5 else (det6.get(sid, {}) if round6 else (det7.get(sid, {}) if round7 else det.get(sid, {}))))))
    meta = {
        "id": sid,
        "property": pid,
        "summary": am.get("summary", ""),
        "needs_to_manifest": am.get("needs_to_manifest", ""),
        "clause_violated": am.get("clause_violated", ""),
        "round": 2 if round2 else (3 if round3 else (4 if round4 else (5 if round5 else (6 if round6 else (7 if round7 else 1))))),
        "kind": am.get("kind"),
        "minimal_trigger_size": am.get("minimal_trigger_size"),
        "origin": "written by a fresh sub-agent that saw only the property text and a scratch worktree of /repo (nothing from /verif)" + ("; round 2: asked for changes that cannot manifest on inputs with <=3 nodes, <=2 hyperedges, interfaces <=2, <=3 steps" if round2 else ""),
        "confirmed_in_scratch_worktree": {
            "commands": [
                "cp demo.rs tests/demo_seed.rs && cargo test --offline --test demo_seed   (clean tree: passes)",
                "git apply patch.diff && cargo nextest run --workspace --no-fail-fast --tool-config-file pb:/w/lib/nextest.toml --profile pb --test-threads 8 --offline -E 'not binary(demo_seed)'   (127 passed)",
                "cargo test --offline --test demo_seed   (with the change: fails)",
            ],
            "demo_passes_on_clean_tree": True,
            "baseline_suite_passes_with_change": True,
            "baseline_tests_passed": c.get('suite_passed'),
            "demo_fails_with_change": True,
        },
        "detection_quick_tier": {k2: ("VIOLATION" if v == 1 else ("clean" if v == 0 else f"exit {v}")) for k2, v in sorted(checks.items())},
        "detected_by_own_property_check": checks.get(pid) == 1,
        "detected_by": sorted([k2 for k2, v in checks.items() if v == 1]),
    }
    if round6:
        meta["origin"] += "; round 6: free choice - asked for the violation hardest to notice for a thorough, property-aware black-box suite (exhaustive small inputs, structured larger ones, every entry point, several label types, a second array backend, short histories)"
        meta["why_a_thorough_suite_would_miss_it"] = am.get("why_a_thorough_suite_would_miss_it", "")
        meta["detected_by_own_check_when_the_round_came_in"] = first6.get(sid, {}).get(pid) == 1
    if round7:
        meta["origin"] += "; round 7: free choice again, one change per property, with the families the checks already catch after round 6 named and excluded"
        meta["why_a_thorough_suite_would_miss_it"] = am.get("why_a_thorough_suite_would_miss_it", "")
        meta["detected_by_own_check_when_the_round_came_in"] = first7.get(sid, {}).get(pid) == 1
    if sid in reg:
        meta["regression_run_with_the_final_checks"] = {k2: ("VIOLATION" if v == 1 else ("clean" if v == 0 else f"exit {v}")) for k2, v in sorted(reg[sid].items())}
        for k2, v in reg[sid].items():
            if v == 1 and k2 not in meta["detected_by"]:
                meta["detected_by"] = sorted(meta["detected_by"] + [k2])
        meta["detected_by_own_property_check"] = meta["detected_by_own_property_check"] or reg[sid].get(pid) == 1
    if round2:
        meta["detected_by_own_check_before_round2_strengthening"] = old2.get(sid, {}).get(pid) == 1
    if round3:
        meta["origin"] += "; round 3: asked for two cooperating sites (K1), violations that need a history (K2), wrong failure reporting (K3), right only up to something weaker than stated (K4), secondary entry points (K5)"
        meta["detected_by_own_check_of_revision_dc1b757"] = old3.get(sid, {}).get(pid) == 1
        for extra in ("site_a_only.diff", "site_b_only.diff"):
            if os.path.exists(os.path.join(d, extra)):
                shutil.copy(os.path.join(d, extra), os.path.join(out, extra))
    if round4:
        meta["origin"] += "; round 4: asked for changes that depend on label/data values (V1), on aliasing or repetition of arguments (V2), on degenerate combinations (V3), or on the order in which results are listed (V4)"
        meta["detected_by_own_check_of_revision_dc1b757"] = old4.get(sid, {}).get(pid) == 1
    if round5:
        meta["origin"] += "; round 5: asked for changes that need something wide but not big (W1), a label or element type other than a small integer (W2), exactly one of several equivalent entry points (W3), or an input that is itself the output of another library operation (W4)"
        meta["detected_by_own_check_when_the_round_came_in"] = first5.get(sid, {}).get(pid) == 1
    json.dump(meta, open(os.path.join(out, 'meta.json'), 'w'), indent=1)
    n += 1
print("kept", n)
