#!/usr/bin/env python3
"""Copy confirmed seeded changes from /tmp/seed/out into /verif/seeded/<id>/ with a meta.json that records
what the change breaks, what it needs to manifest, what was run to confirm it, and which checks detect it
(from the detection matrix /tmp/mx/matrix-*.txt and any re-runs recorded in /tmp/mx/rerun-*.txt)."""
import json, os, glob, shutil, re
HERE = os.path.dirname(os.path.dirname(os.path.abspath(__file__)))
det = {}
for f in sorted(glob.glob('/tmp/mx/matrix-*.txt')) + sorted(glob.glob('/tmp/mx/rerun-*.txt')):
    for line in open(f):
        parts = line.split()
        if not parts or '/' not in parts[0]:
            continue
        key = parts[0].replace('/', '-')
        d = det.setdefault(key, {})
        for kv in parts[1:]:
            if '=' in kv:
                c, rc = kv.split('=')
                d[c] = int(rc)
n = 0
for d in sorted(glob.glob('/tmp/seed/out/C*/m*/')):
    pid, k = d.rstrip('/').split('/')[-2:]
    conf = os.path.join(d, 'confirm.json')
    if not os.path.exists(conf):
        continue
    c = json.load(open(conf))
    if not (c.get('applies') and c.get('demo_passes_clean') and c.get('suite_rc_with_change') == 0 and c.get('suite_passed') == 127 and c.get('demo_fails_with_change')):
        print("not kept:", pid, k, c)
        continue
    sid = f"{pid}-{k}"
    out = os.path.join(HERE, 'seeded', sid)
    os.makedirs(out, exist_ok=True)
    shutil.copy(os.path.join(d, 'patch.diff'), os.path.join(out, 'patch.diff'))
    shutil.copy(os.path.join(d, 'demo.rs'), os.path.join(out, 'demo.rs'))
    try:
        am = json.load(open(os.path.join(d, 'meta.json')))
    except Exception:
        am = {}
    checks = det.get(sid, {})
    meta = {
        "id": sid,
        "property": pid,
        "summary": am.get("summary", ""),
        "needs_to_manifest": am.get("needs_to_manifest", ""),
        "clause_violated": am.get("clause_violated", ""),
        "origin": "written by a fresh sub-agent that saw only the property text and a scratch worktree of /repo (nothing from /verif)",
        "confirmed_in_scratch_worktree": {
            "commands": [
                "cp demo.rs tests/demo_seed.rs && cargo test --offline --test demo_seed   (clean tree: passes)",
                "git apply patch.diff && cargo nextest run --workspace --no-fail-fast --tool-config-file pb:/w/lib/nextest.toml --profile pb --test-threads 8 --offline -E 'not binary(demo_seed)'   (127 passed)",
                "cargo test --offline --test demo_seed   (with the change: fails)",
            ],
            "demo_passes_on_clean_tree": True,
            "baseline_suite_passes_with_change": True,
            "baseline_tests_passed": c.get('suite_passed'),
            "demo_fails_with_change": True,
        },
        "detection_quick_tier": {k2: ("VIOLATION" if v == 1 else ("clean" if v == 0 else f"exit {v}")) for k2, v in sorted(checks.items())},
        "detected_by_own_property_check": checks.get(pid) == 1,
        "detected_by": sorted([k2 for k2, v in checks.items() if v == 1]),
    }
    json.dump(meta, open(os.path.join(out, 'meta.json'), 'w'), indent=1)
    n += 1
print("kept", n)
