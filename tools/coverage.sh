#!/bin/bash
# tools/coverage.sh : which regions of /repo/src do the quick checks execute?  (analysis aid, not a registered check)
# Builds the harness with -C instrument-coverage on the nightly toolchain into /tmp/covt, runs every quick check,
# merges the profiles and prints the llvm-cov report for /repo/src plus the uncovered lines.
set -e
T=~/.rustup/toolchains/nightly-x86_64-unknown-linux-gnu/lib/rustlib/x86_64-unknown-linux-gnu/bin
mkdir -p /tmp/cov; cd "$(dirname "$0")/../harness"
LLVM_PROFILE_FILE=/tmp/cov/build-%p.profraw RUSTFLAGS="-C instrument-coverage" cargo +nightly build --offline --profile checked --target-dir /tmp/covt -p ohmc --bins
rm -f /tmp/cov/*.profraw; mkdir -p /tmp/cov /tmp/covout
BINS="c01 c02 c03 c04 c05 c06 c07 c08 c09 c10 c11 c12 c13 c14 c15 c16 c17 c18 c19 c20"
for c in $BINS; do
  LLVM_PROFILE_FILE=/tmp/cov/$c-%p.profraw OHMC_CAP_S=${COV_CAP_S:-400} VERIF_DIR=/tmp/covout /tmp/covt/checked/$c quick >/tmp/covout/$c.log 2>&1 || true
done
$T/llvm-profdata merge -sparse /tmp/cov/*.profraw -o /tmp/cov/all.profdata
OBJ=$(for c in $BINS; do echo -n "-object /tmp/covt/checked/$c "; done)
$T/llvm-cov report $OBJ -instr-profile=/tmp/cov/all.profdata --ignore-filename-regex='(registry|rustc|verif/harness)'
$T/llvm-cov show $OBJ -instr-profile=/tmp/cov/all.profdata --ignore-filename-regex='(registry|rustc|verif/harness)' > /tmp/cov/show.txt
echo "uncovered lines (file:line):"
awk '/^\/repo\/src/ {f=$0} /^ +[0-9]+\| +0\|/ {print f $0}' /tmp/cov/show.txt | grep -vE '\| +0\|\s*(\}|\)|$)' | cut -c1-160
