#!/usr/bin/env python3
"""Round 8: copy the confirmed candidates /tmp/seed/out8/<Cxx>/m1 into /verif/seeded/<Cxx>-z1/ with a meta.json
built from the author's notes.json, tools/confirm_seed.sh's confirm.json and the detection lines in /tmp/mx/r8.txt."""
import json, os, shutil, sys
HERE = os.path.dirname(os.path.dirname(os.path.abspath(__file__)))
det = {}
for line in open('/tmp/mx/r8.txt'):
    parts = line.split()
    if parts:
        det[parts[0].split('/')[0]] = {kv.split('=')[0]: int(kv.split('=')[1]) for kv in parts[1:]}
for pid in sys.argv[1:]:
    src = f'/tmp/seed/out8/{pid}/m1'
    conf = json.load(open(f'{src}/confirm.json'))
    assert conf['applies'] and conf['demo_passes_clean'] and conf['suite_rc_with_change'] == 0 \
        and conf['suite_passed'] == 127 and conf['demo_fails_with_change'], (pid, conf)
    notes = json.load(open(f'{src}/notes.json'))
    dst = f'{HERE}/seeded/{pid}-z1'
    os.makedirs(dst, exist_ok=True)
    for f in ('patch.diff', 'demo.rs'):
        shutil.copy(f'{src}/{f}', f'{dst}/{f}')
    d = det[pid]
    meta = {
        'id': f'{pid}-z1', 'property': pid,
        'summary': notes.get('summary'), 'needs_to_manifest': notes.get('needs_to_manifest'),
        'clause_violated': notes.get('clause_violated'), 'round': 8, 'kind': notes.get('kind'),
        'origin': 'written by a fresh sub-agent that saw only the property text and a scratch worktree of /repo '
                  '(nothing from /verif); round 8: free choice, about ten minutes each, the families of rounds 6-7 named and excluded',
        'confirmed_in_scratch_worktree': {
            'commands': [
                'cp demo.rs tests/demo_seed.rs && cargo test --offline --test demo_seed   (clean tree: passes)',
                "git apply patch.diff && cargo nextest run --workspace --no-fail-fast --tool-config-file pb:/w/lib/nextest.toml --profile pb --test-threads 8 --offline -E 'not binary(demo_seed)'   (127 passed)",
                'cargo test --offline --test demo_seed   (with the change: fails)'],
            'demo_passes_on_clean_tree': True, 'baseline_suite_passes_with_change': True,
            'baseline_tests_passed': 127, 'demo_fails_with_change': True},
        'detection_quick_tier': {c: ('VIOLATION' if rc == 1 else 'quiet' if rc == 0 else f'machinery rc={rc}') for c, rc in d.items()},
        'detected_by_own_property_check': d.get(pid) == 1,
        'detected_by': sorted(c for c, rc in d.items() if rc == 1),
        'why_a_thorough_suite_would_miss_it': notes.get('why_a_thorough_suite_would_miss_it'),
        'detected_by_own_check_when_the_round_came_in': d.get(pid) == 1,
    }
    json.dump(meta, open(f'{dst}/meta.json', 'w'), indent=1, ensure_ascii=False)
    print(pid, meta['kind'], meta['detected_by'])
