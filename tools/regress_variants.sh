#!/bin/bash
# tools/regress_variants.sh <Cxx> [checks...] : re-run the quick tier of the given checks (default: the property's own,
# C05 and C20) against every kept property-preserving variant /verif/variants/<Cxx>-*/patch.diff, applied in the scratch
# worktree /tmp/seed/<Cxx>. Every exit code must be 0: a non-zero one is a false alarm (or a broken check).
PID="$1"; shift
CHECKS=("$@"); if [[ ${#CHECKS[@]} == 0 ]]; then CHECKS=($PID C05 C20); fi
HERE="$(cd "$(dirname "$0")/.." && pwd)"
W=/tmp/seed/$PID
mkdir -p /tmp/mx
RES=${MX_RES:-/tmp/mx/regvar-$PID.txt}; : > "$RES"
for d in "$HERE"/variants/$PID-*/; do
  id=$(basename "$d")
  git -C "$W" checkout -q -- . ; git -C "$W" apply "$d/patch.diff" || { echo "$id patch-does-not-apply" >> "$RES"; continue; }
  o=/tmp/mx/out/regvar-$id; rm -rf "$o"; mkdir -p "$o"; cp "$HERE/known_findings.json" "$o/"
  line="$id"
  for c in "${CHECKS[@]}"; do
    OHMC_REPO_OVERRIDE="$W" OHMC_TARGET_DIR=/tmp/mx/target-$PID OHMC_OUT_DIR="$o" OHMC_CAP_S=120 "$HERE/check" $c quick > "$o/$c.log" 2>&1
    line="$line $c=$?"
  done
  echo "$line" >> "$RES"
  git -C "$W" checkout -q -- .
done
cat "$RES"
