#!/bin/bash
# tools/regress_seeded.sh <Cxx> [checks...] : re-run the quick tier of the given checks (default: the property's own)
# against every kept seeded change /verif/seeded/<Cxx>-*/patch.diff, applied in the scratch worktree /tmp/seed/<Cxx>
# (cargo `paths` override, own target and output directory; never touches /repo or /verif/evidence).
# Prints one line per change: "<id> <check>=<exit code> ...". Used after every larger change to the harness.
PID="$1"; shift
CHECKS=("$@"); if [[ ${#CHECKS[@]} == 0 ]]; then CHECKS=($PID); fi
HERE="$(cd "$(dirname "$0")/.." && pwd)"
W=/tmp/seed/$PID
mkdir -p /tmp/mx
RES=${MX_RES:-/tmp/mx/regress-$PID.txt}; : > "$RES"
for d in "$HERE"/seeded/$PID-*/; do
  id=$(basename "$d")
  git -C "$W" checkout -q -- . ; git -C "$W" apply "$d/patch.diff" || { echo "$id patch-does-not-apply" >> "$RES"; continue; }
  o=/tmp/mx/out/reg-$id; rm -rf "$o"; mkdir -p "$o"; cp "$HERE/known_findings.json" "$o/"
  line="$id"
  for c in "${CHECKS[@]}"; do
    OHMC_REPO_OVERRIDE="$W" OHMC_TARGET_DIR=/tmp/mx/target-$PID OHMC_OUT_DIR="$o" OHMC_CAP_S=120 "$HERE/check" $c quick > "$o/$c.log" 2>&1
    line="$line $c=$?"
  done
  echo "$line" >> "$RES"
  git -C "$W" checkout -q -- .
done
cat "$RES"
