#!/bin/bash
# tools/matrix.sh <Cxx> [checks...] : detection matrix for the candidate changes of property <Cxx>.
# Applies each /tmp/seed/out/<Cxx>/m*/patch.diff in the scratch worktree /tmp/seed/<Cxx> and runs the quick
# tier of the listed checks (default: all twenty) against that worktree (cargo `paths` override, own
# target and output directory). Never touches /repo or /verif/evidence. Result lines go to
# /tmp/mx/matrix-<Cxx>.txt. MX_GLOB=e* selects the property-preserving variants (tools/confirm_variant.sh).
PID="$1"; shift
CHECKS=("$@"); if [[ ${#CHECKS[@]} == 0 ]]; then CHECKS=(C01 C02 C03 C04 C05 C06 C07 C08 C09 C10 C11 C12 C13 C14 C15 C16 C17 C18 C19 C20); fi
W=/tmp/seed/$PID; OUT=${SEED_OUT:-/tmp/seed/out}/$PID
mkdir -p /tmp/mx
RES=${MX_RES:-/tmp/mx/matrix-$PID.txt}; : > "$RES"
for d in "$OUT"/${MX_GLOB:-m*}/; do
  k=$(basename "$d")
  git -C "$W" checkout -q -- . ; git -C "$W" apply "$d/patch.diff" || { echo "$PID/$k patch-does-not-apply" >> "$RES"; continue; }
  o=/tmp/mx/out/$PID-$k; rm -rf "$o"; mkdir -p "$o"; cp /verif/known_findings.json "$o/"
  line="$PID/$k"
  for c in "${CHECKS[@]}"; do
    OHMC_REPO_OVERRIDE="$W" OHMC_TARGET_DIR=/tmp/mx/target-$PID OHMC_OUT_DIR="$o" OHMC_CAP_S=120 ${VERIF_CHECK:-/verif/check} $c quick > "$o/$c.log" 2>&1
    rc=$?
    line="$line $c=$rc"
  done
  echo "$line" >> "$RES"
  git -C "$W" checkout -q -- .
done
cat "$RES"
