#!/usr/bin/env python3
"""Generate /verif/MANIFEST.json. CLAIMED lists the properties whose check is built; everything else
is listed under not_applicable with its reason."""
import json, os, sys
HERE = os.path.dirname(os.path.dirname(os.path.abspath(__file__)))
props = [json.loads(l) for l in open(os.path.join(HERE, 'properties.jsonl'))]

# id -> (technique, level text, level note, design ref)
CLAIMED = {
 'C01': ("bounded exhaustive enumeration of all pairs (f,g), real compose vs reference gluing up to isomorphism",
         "Every ordered pair of open hypergraphs in the stated universes (millions of pairs, types matching and mismatching) is composed by the real code; the result must be isomorphic (interfaces pinned) to an independently computed gluing, or be None exactly on a type mismatch. Exhaustive within the size bound, so corner shapes (repeated boundary nodes, chains of identifications, zero-arity edges) are all covered.",
         "small-scope bound (<=3 nodes, <=1 hyperedge per operand, 2 labels); Vec backend; the plain reference model and the isomorphism oracle (self-tested against brute force)",
         "DESIGN.md §4 C01"),
 'C02': ("bounded exhaustive enumeration of pairs/triples, real tensor vs plain juxtaposition, exact data equality",
         "All pairs and triples of strict diagrams and of lax diagrams with pending unifications in the stated universes are tensored by the real code (method and `|`); the decoded result (with every raw field re-derived by the deep well-formedness check) must equal the juxtaposition computed on the plain model, and associativity/unit must hold as data.",
         "small-scope bound (<=2-3 nodes, <=1-2 edges, <=2 pending pairs); plain reference model", "DESIGN.md §4 C02"),
 'C03': ("bounded exhaustive enumeration of law instances, both sides through the public API, decided by an isomorphism procedure",
         "Every composable triple, every pair of composable pairs, every pair of diagrams and every triple of object lists within the bounds instantiates the corresponding law; both sides are computed by the real compose/tensor/identity/twist and compared by isomorphism with interfaces pinned.",
         "small-scope bound; isomorphism oracle (self-tested against brute force)", "DESIGN.md §4 C03"),
 'C04': ("bounded exhaustive enumeration of diagrams, cospan pairs and raw spider arguments; exact and up-to-iso comparison with the plain model",
         "Dagger is checked as exact data on every diagram (swap, involution, distribution over tensor) and up to isomorphism against composition; spider fusion is checked on every type-matching pair of labelled cospans with legs up to length 3 against cospan composition on the plain model; the acceptance condition of spider/half_spider is checked on every (leg, declared codomain, leg, declared codomain, node list) combination, strict and lax.",
         "small-scope bound; plain reference gluing", "DESIGN.md §4 C04"),
 'C05': ("bounded exhaustive enumeration of operations and of raw constructor arguments; deep well-formedness decoder + type comparison",
         "Every result of every public constructor and categorical operation over the universes is decoded by a deep well-formedness checker written against the raw public fields and its type compared with the promised one; Hypergraph::new / OpenHypergraph::new see every combination of mismatched counts and codomains and must accept exactly the documented data and name a condition that really fails.",
         "small-scope bound; functor/optic/conversion outputs are deep-checked inside C10, C12-C14 by the same decoder", "DESIGN.md §4 C05"),
 'C06': ("bounded exhaustive enumeration of finite functions, pairs, (sizes,map) pairs and (surjection, map) pairs against functions-as-Vec",
         "All finite functions with domain and codomain up to 4 (5), all ordered pairs of them, all raw tables, all block-wise injection arguments and all surjections crossed with all maps are pushed through the public API and compared with set-theoretic definitions; coequalizers are compared as partitions (too coarse and too fine both caught) and the universal map must exist exactly when the map is constant on fibres.",
         "domains/codomains <= 4-5; numbering of coequalizer classes is free", "DESIGN.md §4 C06"),
 'C07': ("bounded exhaustive enumeration of primitive arguments against scalar loops (any conforming answer accepted where the contract is open)",
         "Each of the ~35 array primitives is run on every argument combination within the bounds (arrays of length <=4 over values <=3, index arrays, all range forms, all small edge lists) and compared with its scalar definition inside the documented precondition.",
         "array length <=4, values <=3; graphs <=4-5 nodes; scalar loops are the specification", "DESIGN.md §4 C07"),
 'C08': ("bounded exhaustive enumeration of segmented arrays and operation arguments, list-of-lists decoding; exhaustive exploration of iterator call sequences",
         "Every segmented array with <=3-4 segments of size <=2 (of finite functions and of labels), every pair, every re-indexing and value map, and every raw (sizes, codomain, length) triple is run through the real API and decoded to lists of lists with the size invariant re-checked; the iterator state machines are explored over every call sequence of next/len/size_hint of length n+2 against a cursor model.",
         "<=4 segments of size <=2; codomain <=3", "DESIGN.md §4 C08"),
}
NOT_YET = "check not built yet in this revision of /verif (work in progress; see DESIGN.md §4)"

checks = []
na = []
for p in props:
    pid = p['id']
    if pid in CLAIMED:
        tech, text, note, ref = CLAIMED[pid]
        checks.append({
            "property_id": pid,
            "quick_cmd": f"./check {pid} quick",
            "thorough_cmd": f"./check {pid} thorough",
            "evidence_file": f"/verif/evidence/{pid}.json",
            "replay_cmd_template": f"./check {pid} --replay {{path}}",
            "engine": "ohmc",
            "level_claimed": {"category": "model_checking", "text": text, "design_ref": ref},
            "level_note": note,
            "technique": tech,
        })
    else:
        na.append({"property_id": pid, "reason": NOT_YET})

m = {
 "version": 1,
 "setup_cmd": "cd /verif/harness && CARGO_NET_OFFLINE=true cargo build --offline --profile checked --workspace && CARGO_NET_OFFLINE=true cargo build --offline --profile fast -p ohmc && ./target/checked/selftest",
 "hooks": {
   "guard": "cargo feature verif-hooks (of the open-hypergraphs crate)",
   "enable": "the harness depends on /repo by path with features = [\"serde\", \"verif-hooks\"] (harness/ohmc/Cargo.toml)",
   "baseline_off_cmd": "cd /repo && (cargo nextest run --workspace --no-fail-fast --tool-config-file pb:/w/lib/nextest.toml --profile pb --test-threads 8 --offline || cargo test --workspace --no-fail-fast --offline)",
   "source_commits": ["92cd546"],
   "add_only": True,
 },
 "engines": [
   {"name": "ohmc", "path": "/verif/harness", "serves_properties": [c["property_id"] for c in checks],
    "kind_free_text": "hand-written explicit-state explorers in Rust running the real library code: exhaustive enumeration of inputs by unranking (rayon-parallel), breadth-first search over builder histories with exact-state deduplication, deviation-bounded exploration of array-backend choices; reference = plain list model + isomorphism decision procedure"},
 ],
 "checks": checks,
 "notes": "All checks are bounded-exhaustive model checking of the implementation itself (no sampling, no solver). Exit 2 = machinery failure, never a verdict. Known findings: /verif/known_findings.json (all five defects found so far are repaired by fix: commits in /repo).",
 "not_applicable": na,
}
json.dump(m, open(os.path.join(HERE, 'MANIFEST.json'), 'w'), indent=1)
print("claimed:", [c["property_id"] for c in checks])
