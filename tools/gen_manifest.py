#!/usr/bin/env python3
"""Generate /verif/MANIFEST.json. CLAIMED lists the properties whose check is built; everything else
is listed under not_applicable with its reason."""
import json, os, sys
HERE = os.path.dirname(os.path.dirname(os.path.abspath(__file__)))
props = [json.loads(l) for l in open(os.path.join(HERE, 'properties.jsonl'))]

# id -> (technique, level text, level note, design ref)
CLAIMED = {
 'C01': ("bounded exhaustive enumeration of all pairs (f,g), real compose vs reference gluing up to isomorphism",
         "Every ordered pair of open hypergraphs in the stated universes (millions of pairs, types matching and mismatching) is composed by the real code; the result must be isomorphic (interfaces pinned) to an independently computed gluing, or be None exactly on a type mismatch. Exhaustive within the size bound, so corner shapes (repeated boundary nodes, chains of identifications, zero-arity edges) are all covered.",
         "small-scope bound (<=3 nodes, <=1 hyperedge per operand, 2 labels); Vec backend; the plain reference model and the isomorphism oracle (self-tested against brute force)",
         "DESIGN.md §4 C01"),
 'C02': ("bounded exhaustive enumeration of pairs/triples, real tensor vs plain juxtaposition, exact data equality",
         "All pairs and triples of strict diagrams and of lax diagrams with pending unifications in the stated universes are tensored by the real code (method and `|`); the decoded result (with every raw field re-derived by the deep well-formedness check) must equal the juxtaposition computed on the plain model, and associativity/unit must hold as data.",
         "small-scope bound (<=2-3 nodes, <=1-2 edges, <=2 pending pairs); plain reference model", "DESIGN.md §4 C02"),
 'C03': ("bounded exhaustive enumeration of law instances, both sides through the public API, decided by an isomorphism procedure",
         "Every composable triple, every pair of composable pairs, every pair of diagrams and every triple of object lists within the bounds instantiates the corresponding law; both sides are computed by the real compose/tensor/identity/twist and compared by isomorphism with interfaces pinned.",
         "small-scope bound; isomorphism oracle (self-tested against brute force)", "DESIGN.md §4 C03"),
 'C04': ("bounded exhaustive enumeration of diagrams, cospan pairs and raw spider arguments; exact and up-to-iso comparison with the plain model",
         "Dagger is checked as exact data on every diagram (swap, involution, distribution over tensor) and up to isomorphism against composition; spider fusion is checked on every type-matching pair of labelled cospans with legs up to length 3 against cospan composition on the plain model; the acceptance condition of spider/half_spider is checked on every (leg, declared codomain, leg, declared codomain, node list) combination, strict and lax.",
         "small-scope bound; plain reference gluing", "DESIGN.md §4 C04"),
 'C05': ("bounded exhaustive enumeration of operations and of raw constructor arguments; deep well-formedness decoder + type comparison",
         "Every result of every public constructor and categorical operation over the universes is decoded by a deep well-formedness checker written against the raw public fields and its type compared with the promised one; Hypergraph::new / OpenHypergraph::new see every combination of mismatched counts and codomains and must accept exactly the documented data and name a condition that really fails.",
         "small-scope bound; functor/optic/conversion outputs are deep-checked inside C10, C12-C14 by the same decoder", "DESIGN.md §4 C05"),
 'C06': ("bounded exhaustive enumeration of finite functions, pairs, (sizes,map) pairs and (surjection, map) pairs against functions-as-Vec",
         "All finite functions with domain and codomain up to 4 (thorough: domain 6, codomain 5), all ordered pairs of them, all raw tables, all block-wise injection arguments and all surjections crossed with all maps are pushed through the public API and compared with set-theoretic definitions; coequalizers are compared as partitions (too coarse and too fine both caught) and the universal map must exist exactly when the map is constant on fibres.",
         "quick: domains/codomains <= 4; thorough: domains <= 6, codomains <= 5 (every parallel pair into 6 for coequalizers); left tables of length 16-25 made of consecutive runs in every order of the runs; numbering of coequalizer classes is free", "DESIGN.md §4 C06"),
 'C07': ("bounded exhaustive enumeration of primitive arguments against scalar loops (any conforming answer accepted where the contract is open)",
         "Each of the ~35 array primitives is run on every argument combination within the bounds (arrays of length <=4 over values <=3, index arrays, all range forms, all small edge lists) and compared with its scalar definition inside the documented precondition.",
         "quick: array length <=4, values <=3, graphs <=4 nodes; thorough: length <=5 (<=8 for single-argument primitives), graphs <=5-6 nodes with <=5 edges; patterned arrays up to length 65; index arrays of length 16-25 made of consecutive runs in every order of the runs; magnitudes around powers of two; element types usize, String, (), free terms; scalar loops are the specification", "DESIGN.md §4 C07"),
 'C08': ("bounded exhaustive enumeration of segmented arrays and operation arguments, list-of-lists decoding; exhaustive exploration of iterator call sequences",
         "Every segmented array with <=3-4 segments of size <=2 (of finite functions and of labels), every pair, every re-indexing and value map, and every raw (sizes, codomain, length) triple is run through the real API and decoded to lists of lists with the size invariant re-checked; the iterator state machines are explored over every call sequence of next/len/size_hint of length n+2 against a cursor model.",
         "quick: <=3 segments of size <=2 over codomains <=3 (4 segments over codomains <=2 for the one-argument operations), re-indexing maps of length <=4; thorough: <=5 segments of size <=3", "DESIGN.md §4 C08"),
 'C09': ("explicit-state exploration: exhaustive inputs (all pending-pair lists) + breadth-first search over unify/quotient/new_node histories with exact-state deduplication + live-object history replay",
         "Every lax (open) hypergraph of the universes with every list of up to 3 pending pairs is quotiented by the real code (on the open hypergraph and on the bare hypergraph), then again; success/failure, the returned map (as a partition), every rewritten reference, the cleared pending list and - on failure - every public field are compared with the reference. Interleavings of unify/quotient/new_node are explored breadth-first to depth 8-12 and replayed on one live object.",
         "<=4-5 nodes, <=3 pending pairs (4 pairs on exactly 4 nodes; thorough 5 on 5); unify histories of 40 (60) calls from every base list of <=2 (3) pairs on 5 (6) nodes; labels u8 and labels whose equality ignores a tag; numbering of merged nodes is free", "DESIGN.md §4 C09"),
 'C10': ("bounded exhaustive enumeration; real to_strict/from_strict and lax operations vs strict operations, compared by isomorphism / exact data",
         "Round trips strict->lax->strict and lax->strict->lax are compared as exact data on every diagram; for every ordered pair of label-consistent lax diagrams with pending unifications compose (defined iff types match), lax_compose (iff arities match) and tensor are strictified by the real to_strict and compared up to isomorphism with the strict operation on strictified arguments; tensor_assign, append and coproduct_assign are compared field for field with the pure forms; identity, twist, singleton, spider and dagger likewise.",
         "<=2-3 nodes, <=1-2 hyperedges, <=1-2 pending pairs", "DESIGN.md §4 C10"),
 'C11': ("explicit-state model checking of the implementation: breadth-first search over all builder-call histories with exact-state deduplication, refinement check against a plain list model on every transition, live-object depth-first replay, serde round trip at every state",
         "From the empty diagram every builder call with every argument inside the boundary is applied to a real object rebuilt from the state; return value and every public field are compared with the plain list model; out-of-range identifiers must be rejected; the search runs to its fixed point inside the boundary on lax::OpenHypergraph and lax::Hypergraph (deletion witness observable); at every reached state the serde_json round trip and the documented JSON shape are checked; all histories of length 4-5 are replayed on one live object.",
         "<=3 nodes, <=1-2 hyperedges, <=1-2 pending pairs, interfaces <=1; u8 labels", "DESIGN.md §4 C11"),
 'C12': ("bounded exhaustive enumeration of programs (36-45 functors) x inputs (all diagrams), real spider-decomposition code vs literal substitution on the plain model up to isomorphism",
         "Each functor of a finite family (object images of length 0, 1, 2; operation images: single operation, composite, spider-only, disconnected, un-quotiented lax composite) is applied by the real strict Functor machinery and by the lax trait through DynFunctor to every diagram of the universes; the result must be isomorphic to generator-wise substitution computed on the plain model and have type F(A)->F(B); functoriality laws and both Identity functors are checked through the public API.",
         "diagrams <=2-3 nodes, <=1-2 hyperedges; finite functor family", "DESIGN.md §4 C12"),
 'C13': ("bounded exhaustive enumeration of programs x inputs on the native lax functor path, compared with the strict path and with substitution; witness checked by definition",
         "For every functor of the family and every quotient-free lax diagram, try_define_map_arrow must return a diagram that quotients to something isomorphic to the strict-path image and to the reference substitution; map_arrow_witness must relate input node i to exactly |F(label)| output nodes carrying F(label) in order and push the interfaces correctly through the quotient; every diagram with a pending unification must be refused.",
         "diagrams <=2-3 nodes, <=1-2 hyperedges; finite functor family", "DESIGN.md §4 C13"),
 'C14': ("bounded exhaustive enumeration of optics x diagrams (routing, up to iso with a reference substitution) and of circuits x inputs (reverse derivative vs forward-mode dual numbers), real evaluation",
         "127 (quick) / 729 routing optics with labelled singleton images are applied (strict Optic, lax map_arrow/map_adapted) to every diagram; the result must be isomorphic to the reference optic substitution with the right interleaved type, the adapted form must have type FA●RB->FB●RA on the same hypergraph and stay monogamous; every monogamous acyclic polynomial circuit with <=2 inputs and <=3 generators (every wiring, output order and edge order) is differentiated by optic composition with the standard lenses and evaluated by the real evaluator on representatives of Z/2^64: it must return (f(x), J^T dy).",
         "small-scope bounds; 5 ring representatives; dy from unit vectors plus two (linearity)", "DESIGN.md §4 C14"),
 'C15': ("bounded exhaustive enumeration of all small hypergraphs, real layer()/layered_operations() (and hooked graph routines) vs the definition; two build profiles",
         "Every hypergraph with <=3 nodes and <=3 operations of arity <=2 (thorough: 4 operations, 4-5 nodes, arity 3) - dependency multiplicities up to 4-9, self-dependence, cycles with tails, zero-arity operations - is layered by the real code; unvisited flags must be exactly the operations on or downstream of a cycle, layers must respect dependencies, start at 0 and use exactly longest-chain many; the grouped form must list visited operations once in their layer; converse, operation adjacency, in-degree and Kahn are compared with reference loops through the verif-hooks wrappers.",
         "<=3-5 nodes, <=3-4 operations; any valid layering accepted", "DESIGN.md §4 C15"),
 'C16': ("bounded exhaustive enumeration of programs over a fixed-arity signature x input vectors, real eval with instrumented callback vs recursive reference interpreter; two build profiles",
         "Every diagram over a 9-letter signature within the bounds (all numberings) is classified by the reference; cyclic ones must be refused, acyclic ones must return a result, and for single-writer programs the outputs and the multiset of interpreter calls must equal the reference for every input vector over {0,1,2,3}.",
         "<=3-4 nodes, <=2-4 operations, interfaces <=2", "DESIGN.md §4 C16"),
 'C17': ("bounded exhaustive enumeration of open hypergraphs and node indices, predicates vs definitions; two build profiles (overflow checks on/off)",
         "is_acyclic (both entry points), is_monogamous, in_degree and out_degree are run on every open hypergraph with <=3 nodes, <=2 hyperedges of arity <=2 and interfaces <=2 (thorough: 4 nodes, 3 hyperedges, arity 3) and every node; any panic or wrong answer is a violation; both a debug-like and a release-like build are run.",
         "<=3-4 nodes; labels irrelevant", "DESIGN.md §4 C17"),
 'C18': ("bounded exhaustive enumeration of (G, H, w, x) with all maps (typed and mistyped), and of all sub-hypergraph inclusions; brute-force definitions; two build profiles",
         "For all pairs of small hypergraphs and ALL maps between their node and edge sets acceptance must coincide with the definition and a rejection must name a condition that really fails; is_monomorphism and is_convex_subgraph are compared on every accepted arrow and on every sub-hypergraph inclusion (sorted and reversed) against a path search over (node, used-outside-edge) states.",
         "<=2-3 nodes, <=2 hyperedges (convexity: <=3-4 nodes, <=3-4 hyperedges)", "DESIGN.md §4 C18"),
 'C19': ("bounded exhaustive enumeration of expression programs/histories through the real Var interface and of lax terms for forget; isomorphism with a reference term / reference rewrite; real evaluation",
         "Every expression program within the bounds (all operator overloads, operation/fn_operation, sharing, interleaved Var::new, repeated and bare interface variables, a leaked handle) is built by the real code and compared up to isomorphism with the reference term; forget and forget_monogamous are compared with the reference rewrite on every Var-built term and on every label-consistent lax term with variable hyperedges of arity 0..2 x 0..2, must keep the type, and the forgotten Var-built terms must evaluate to the expression's value.",
         "<=2 declared variables, <=2-3 applications; lax terms <=3 nodes, <=1-2 hyperedges", "DESIGN.md §4 C19"),
 'C20': ("deviation-bounded exhaustive exploration of backend choice tapes (CHESS-style iterative bounding on environment answers) x exhaustive inputs, on a second ArrayKind whose conformance is itself checked",
         "The strict algorithms are instantiated at a second array backend whose four open choices follow a choice tape; for every input of the universes every tape with <=1 (quick) / <=2 deviations is executed and the result compared with the Vec backend's (isomorphic diagrams, identical predicates, Option-ness and evaluation outputs, layer validity); the backend's own conformance to the array contract is established by running the C07 oracle under every alternative of every choice point.",
         "deviation bound 1-2, <=4096 executions per input; only Vec and adversarial variants of it", "DESIGN.md §3.5, §4 C20"),
}
STRUCT = {"C01","C02","C03","C04","C05","C06","C07","C08","C09","C10","C11","C12","C13","C14","C15","C16","C17","C18","C19","C20"}
NOT_YET = "check not built yet in this revision of /verif (work in progress; see DESIGN.md §4)"

checks = []
na = []
for p in props:
    pid = p['id']
    if pid in CLAIMED:
        tech, text, note, ref = CLAIMED[pid]
        if pid in ("C15", "C16", "C17"):
            tech += "; plus dependency chains of 30 000 / 100 000 operations, each executed in a child process on a 2 MiB thread stack (a call that does not come back is a violation of the returns-for-every-diagram clause)"
        if pid in STRUCT:
            tech += "; plus completely enumerated structured families of larger inputs (size parameters up to 129 / 513, depths, multiplicities, magnitudes near powers of two, wide hyperedges and interfaces, many labels, every listing order of a 3-4 wire boundary, un-quotiented presentations of lax diagrams, every leg 4 -> 4, union-find builds followed by every redundant pair, operations numbered out of order)"
            text += " In addition to the exhaustive small universes, parametrised families of larger inputs (DESIGN.md §10.2, §10.6, §10.12) are enumerated completely for every size parameter up to a stated bound, because realistic faults exist that no input below the small-scope bound can show."
        checks.append({
            "property_id": pid,
            "quick_cmd": f"./check {pid} quick",
            "thorough_cmd": f"./check {pid} thorough",
            "evidence_file": f"/verif/evidence/{pid}.json",
            "replay_cmd_template": f"./check {pid} --replay {{path}}",
            "engine": "ohmc",
            "level_claimed": {"category": "model_checking", "text": text, "design_ref": ref},
            "level_note": note,
            "technique": tech,
        })
    else:
        na.append({"property_id": pid, "reason": NOT_YET})

m = {
 "version": 1,
 "setup_cmd": "cd /verif/harness && CARGO_NET_OFFLINE=true cargo build --offline --profile checked --workspace && CARGO_NET_OFFLINE=true cargo build --offline --profile fast -p ohmc && ./target/checked/selftest",
 "hooks": {
   "guard": "cargo feature verif-hooks (of the open-hypergraphs crate)",
   "enable": "the harness depends on /repo by path with features = [\"serde\", \"verif-hooks\"] (harness/ohmc/Cargo.toml)",
   "baseline_off_cmd": "cd /repo && (cargo nextest run --workspace --no-fail-fast --tool-config-file pb:/w/lib/nextest.toml --profile pb --test-threads 8 --offline || cargo test --workspace --no-fail-fast --offline)",
   "source_commits": ["92cd546"],
   "add_only": True,
 },
 "engines": [
   {"name": "ohmc", "path": "/verif/harness", "serves_properties": [c["property_id"] for c in checks],
    "kind_free_text": "hand-written explicit-state explorers in Rust running the real library code: exhaustive enumeration of inputs by unranking (rayon-parallel), breadth-first search over builder histories with exact-state deduplication, deviation-bounded exploration of array-backend choices; reference = plain list model + isomorphism decision procedure"},
 ],
 "checks": checks,
 "notes": "All checks are bounded-exhaustive model checking of the implementation itself (no sampling, no solver). Exit 2 = machinery failure, never a verdict. Known findings: /verif/known_findings.json (all five defects found so far are repaired by fix: commits in /repo).",
 "not_applicable": na,
}
json.dump(m, open(os.path.join(HERE, 'MANIFEST.json'), 'w'), indent=1)
print("claimed:", [c["property_id"] for c in checks])
