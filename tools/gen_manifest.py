#!/usr/bin/env python3
"""Generate /verif/MANIFEST.json. CLAIMED lists the properties whose check is built; everything else
is listed under not_applicable with its reason."""
import json, os, sys
HERE = os.path.dirname(os.path.dirname(os.path.abspath(__file__)))
props = [json.loads(l) for l in open(os.path.join(HERE, 'properties.jsonl'))]

# id -> (technique, level text, level note, design ref)
CLAIMED = {
 'C01': ("bounded exhaustive enumeration of all pairs (f,g), real compose vs reference gluing up to isomorphism",
         "Every ordered pair of open hypergraphs in the stated universes (millions of pairs, types matching and mismatching) is composed by the real code; the result must be isomorphic (interfaces pinned) to an independently computed gluing, or be None exactly on a type mismatch. Exhaustive within the size bound, so corner shapes (repeated boundary nodes, chains of identifications, zero-arity edges) are all covered.",
         "small-scope bound (<=3 nodes, <=1 hyperedge per operand, 2 labels); Vec backend; the plain reference model and the isomorphism oracle (self-tested against brute force)",
         "DESIGN.md §4 C01"),
}
NOT_YET = "check not built yet in this revision of /verif (work in progress; see DESIGN.md §4)"

checks = []
na = []
for p in props:
    pid = p['id']
    if pid in CLAIMED:
        tech, text, note, ref = CLAIMED[pid]
        checks.append({
            "property_id": pid,
            "quick_cmd": f"./check {pid} quick",
            "thorough_cmd": f"./check {pid} thorough",
            "evidence_file": f"/verif/evidence/{pid}.json",
            "replay_cmd_template": f"./check {pid} --replay {{path}}",
            "engine": "ohmc",
            "level_claimed": {"category": "model_checking", "text": text, "design_ref": ref},
            "level_note": note,
            "technique": tech,
        })
    else:
        na.append({"property_id": pid, "reason": NOT_YET})

m = {
 "version": 1,
 "setup_cmd": "cd /verif/harness && CARGO_NET_OFFLINE=true cargo build --offline --profile checked --workspace && CARGO_NET_OFFLINE=true cargo build --offline --profile fast -p ohmc && ./target/checked/selftest",
 "hooks": {
   "guard": "cargo feature verif-hooks (of the open-hypergraphs crate)",
   "enable": "the harness depends on /repo by path with features = [\"serde\", \"verif-hooks\"] (harness/ohmc/Cargo.toml)",
   "baseline_off_cmd": "cd /repo && (cargo nextest run --workspace --no-fail-fast --tool-config-file pb:/w/lib/nextest.toml --profile pb --test-threads 8 --offline || cargo test --workspace --no-fail-fast --offline)",
   "source_commits": ["92cd546"],
   "add_only": True,
 },
 "engines": [
   {"name": "ohmc", "path": "/verif/harness", "serves_properties": [c["property_id"] for c in checks],
    "kind_free_text": "hand-written explicit-state explorers in Rust running the real library code: exhaustive enumeration of inputs by unranking (rayon-parallel), breadth-first search over builder histories with exact-state deduplication, deviation-bounded exploration of array-backend choices; reference = plain list model + isomorphism decision procedure"},
 ],
 "checks": checks,
 "notes": "All checks are bounded-exhaustive model checking of the implementation itself (no sampling, no solver). Exit 2 = machinery failure, never a verdict. Known findings: /verif/known_findings.json (all five defects found so far are repaired by fix: commits in /repo).",
 "not_applicable": na,
}
json.dump(m, open(os.path.join(HERE, 'MANIFEST.json'), 'w'), indent=1)
print("claimed:", [c["property_id"] for c in checks])
