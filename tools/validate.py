#!/usr/bin/env python3
"""Validate MANIFEST.json and evidence/*.json against the schemas (needs jsonschema: run with python3-vt)."""
import json, glob, sys, os
import jsonschema
HERE = os.path.dirname(os.path.dirname(os.path.abspath(__file__)))
ok = True
ms = json.load(open('/root/.vp/MANIFEST.schema.json'))
es = json.load(open('/root/.vp/EVIDENCE.schema.json'))
try:
    jsonschema.validate(json.load(open(os.path.join(HERE, 'MANIFEST.json'))), ms)
    print("MANIFEST ok")
except Exception as e:
    ok = False; print("MANIFEST INVALID", e)
for f in sorted(glob.glob(os.path.join(HERE, 'evidence', '*.json'))):
    try:
        jsonschema.validate(json.load(open(f)), es)
        print(os.path.basename(f), "ok")
    except Exception as e:
        ok = False; print(os.path.basename(f), "INVALID", str(e)[:300])
sys.exit(0 if ok else 1)
