#!/bin/bash
# tools/repo_apply_run.sh <seeded-id>... : the prescribed way of running a check against a seeded change:
# git -C /repo apply <patch>; ./check <property> quick; git -C /repo checkout -- .   (result appended to seeded/<id>/repo_run.txt)
cd "$(dirname "$0")/.."
for sid in "$@"; do
  pid=${sid%%-*}
  if [[ -n "$(git -C /repo status --short)" ]]; then echo "/repo is not clean; refusing"; exit 2; fi
  git -C /repo apply "$PWD/seeded/$sid/patch.diff" || { echo "$sid: patch does not apply"; continue; }
  out=$(./check $pid quick 2>/dev/null); rc=$?
  git -C /repo checkout -- .
  v=$(echo "$out" | grep -c '^VIOLATION')
  echo "$sid: ./check $pid quick -> exit $rc, $v VIOLATION line(s): $(echo "$out" | grep '^VIOLATION' | head -1)" | tee "seeded/$sid/repo_run.txt"
done
rm -f replays/*.json
