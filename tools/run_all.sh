#!/bin/bash
# run every check's quick (or given) tier; print one line per property
TIER="${1:-quick}"
cd "$(dirname "$0")/.."
for i in 01 02 03 04 05 06 07 08 09 10 11 12 13 14 15 16 17 18 19 20; do
  s=$(date +%s.%N)
  out=$(./check C$i $TIER 2>/dev/null); rc=$?
  e=$(date +%s.%N)
  printf "C%s rc=%d %.1fs  %s\n" $i $rc $(echo "$e - $s" | bc) "$(echo "$out" | grep -E "^C$i $TIER" | cut -c1-150)"
  echo "$out" | grep -E "VIOLATION|KNOWN-FINDING" | head -3
done
