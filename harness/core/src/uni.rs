//! Enumerable universes with `count()` and `get(i)` (mixed-radix unranking), ordered
//! simplest-first. No symmetry reduction: renumbered copies of a diagram are distinct cases.
use crate::plain::*;

/// number of lists of length <= k over an alphabet of n letters
pub fn s_count(n: usize, k: usize) -> u64 {
    let mut tot = 0u64;
    let mut p = 1u64;
    for _ in 0..=k {
        tot += p;
        p = p.saturating_mul(n as u64);
        if n == 0 {
            break;
        }
    }
    tot
}

/// the i-th list of length <= k over 0..n (shorter lists first)
pub fn s_unrank(n: usize, k: usize, mut i: u64) -> Vec<usize> {
    let mut p = 1u64;
    let mut len = 0usize;
    loop {
        if i < p {
            break;
        }
        i -= p;
        p *= n as u64;
        len += 1;
        assert!(len <= k, "s_unrank out of range");
    }
    let mut v = Vec::with_capacity(len);
    for _ in 0..len {
        v.push((i % n as u64) as usize);
        i /= n as u64;
    }
    v
}

/// all lists of length <= k over 0..n
pub fn lists(n: usize, k: usize) -> Vec<Vec<usize>> {
    (0..s_count(n, k)).map(|i| s_unrank(n, k, i)).collect()
}

/// all lists of length exactly k over 0..n (= all tables k -> n)
pub fn tables(k: usize, n: usize) -> Vec<Vec<usize>> {
    if k > 0 && n == 0 {
        return vec![];
    }
    let cnt = (n as u64).pow(k as u32);
    (0..cnt)
        .map(|mut i| {
            let mut v = Vec::with_capacity(k);
            for _ in 0..k {
                v.push((i % n as u64) as usize);
                i /= n as u64;
            }
            v
        })
        .collect()
}

/// A universe of (lax) open hypergraphs over `u8` labels.
#[derive(Clone, Debug)]
pub struct Spec {
    pub n_min: usize,
    pub n_max: usize,
    pub e_min: usize,
    pub e_max: usize,
    /// max source / target arity of a hyperedge
    pub ks: usize,
    pub kt: usize,
    /// number of node labels / edge labels
    pub lw: usize,
    pub lx: usize,
    /// max length of the source / target interface
    pub a: usize,
    pub b: usize,
    /// max number of pending unification pairs
    pub q: usize,
}

#[derive(Clone, Debug)]
struct Block {
    n: usize,
    e: usize,
    count: u64,
    start: u64,
}

#[derive(Clone, Debug)]
pub struct Universe {
    pub spec: Spec,
    blocks: Vec<Block>,
    total: u64,
}

impl Spec {
    pub fn open(n: usize, e: usize, k: usize, lw: usize, lx: usize, a: usize, b: usize) -> Spec {
        Spec { n_min: 0, n_max: n, e_min: 0, e_max: e, ks: k, kt: k, lw, lx, a, b, q: 0 }
    }
    pub fn hyper(n: usize, e: usize, k: usize, lw: usize, lx: usize) -> Spec {
        Spec { n_min: 0, n_max: n, e_min: 0, e_max: e, ks: k, kt: k, lw, lx, a: 0, b: 0, q: 0 }
    }
    pub fn lax(n: usize, e: usize, k: usize, lw: usize, lx: usize, a: usize, b: usize, q: usize) -> Spec {
        Spec { n_min: 0, n_max: n, e_min: 0, e_max: e, ks: k, kt: k, lw, lx, a, b, q }
    }
    /// Complete universes that together stand in for "at most 3 nodes, at most 2 hyperedges of arity <= 2, two node
    /// and two hyperedge labels", which is too large to enumerate (1.5*10^8 diagrams with interfaces <= 2): everything
    /// with at most one hyperedge; everything on at most two nodes; and, for exactly three nodes and two hyperedges,
    /// one label per sort with full arities, and both labels with unary hyperedges. `full_3x2` adds all of "3 nodes,
    /// 2 hyperedges, all labels" with interfaces of length <= 1. Each member is enumerated completely.
    pub fn family_3x2(ifc: usize, q: usize, full_3x2: bool) -> Vec<Spec> {
        let base = Spec { n_min: 0, n_max: 3, e_min: 0, e_max: 2, ks: 2, kt: 2, lw: 2, lx: 2, a: ifc, b: ifc, q };
        let mut v = vec![
            Spec { e_max: 1, ..base },
            Spec { n_max: 2, ..base },
            Spec { n_min: 3, e_min: 2, lw: 1, lx: 1, ..base },
            Spec { n_min: 3, e_min: 2, ks: 1, kt: 1, ..base },
        ];
        if full_3x2 {
            v.push(Spec { n_min: 3, e_min: 2, a: 1, b: 1, ..base });
        }
        v
    }
    pub fn name(&self) -> String {
        format!(
            "n{}..{}e{}..{}k{}/{}L{}/{}if{}/{}q{}",
            self.n_min, self.n_max, self.e_min, self.e_max, self.ks, self.kt, self.lw, self.lx, self.a, self.b, self.q
        )
    }
    pub fn universe(&self) -> Universe {
        Universe::new(self.clone())
    }
}

impl Universe {
    pub fn new(spec: Spec) -> Universe {
        let mut shapes: Vec<(usize, usize)> = vec![];
        for n in spec.n_min..=spec.n_max {
            for e in spec.e_min..=spec.e_max {
                shapes.push((n, e));
            }
        }
        shapes.sort_by_key(|&(n, e)| (n + e, n));
        let mut blocks = vec![];
        let mut start = 0u64;
        for (n, e) in shapes {
            let per_edge = (spec.lx as u64) * s_count(n, spec.ks) * s_count(n, spec.kt);
            let mut count = (spec.lw as u64).pow(n as u32);
            for _ in 0..e {
                count = count.checked_mul(per_edge).expect("universe too large");
            }
            count = count.checked_mul(s_count(n, spec.a)).unwrap();
            count = count.checked_mul(s_count(n, spec.b)).unwrap();
            count = count.checked_mul(s_count(n * n, spec.q)).unwrap();
            if spec.lw == 0 && n > 0 {
                count = 0;
            }
            if spec.lx == 0 && e > 0 {
                count = 0;
            }
            blocks.push(Block { n, e, count, start });
            start += count;
        }
        Universe { spec, blocks, total: start }
    }

    pub fn count(&self) -> u64 {
        self.total
    }

    pub fn get(&self, i: u64) -> PLax<u8, u8> {
        assert!(i < self.total);
        let b = match self.blocks.binary_search_by(|b| {
            if i < b.start {
                std::cmp::Ordering::Greater
            } else if i >= b.start + b.count {
                std::cmp::Ordering::Less
            } else {
                std::cmp::Ordering::Equal
            }
        }) {
            Ok(ix) => &self.blocks[ix],
            Err(_) => unreachable!(),
        };
        let mut r = i - b.start;
        let sp = &self.spec;
        let n = b.n;
        let mut take = |radix: u64| -> u64 {
            let d = r % radix;
            r /= radix;
            d
        };
        // interfaces and pending pairs vary fastest, then edges, then node labels
        let s = s_unrank(n, sp.a, take(s_count(n, sp.a)));
        let t = s_unrank(n, sp.b, take(s_count(n, sp.b)));
        let ql = s_unrank(n * n, sp.q, take(s_count(n * n, sp.q)));
        let quot: Vec<(usize, usize)> = ql.into_iter().map(|p| (p / n, p % n)).collect();
        let mut edges = Vec::with_capacity(b.e);
        for _ in 0..b.e {
            let src = s_unrank(n, sp.ks, take(s_count(n, sp.ks)));
            let tgt = s_unrank(n, sp.kt, take(s_count(n, sp.kt)));
            let label = take(sp.lx as u64) as u8;
            edges.push(PEdge { label, src, tgt });
        }
        let mut nodes = Vec::with_capacity(n);
        for _ in 0..n {
            nodes.push(take(sp.lw as u64) as u8);
        }
        debug_assert_eq!(r, 0);
        PLax { open: POpen { nodes, edges, s, t }, quot }
    }

    pub fn get_open(&self, i: u64) -> POpen<u8, u8> {
        self.get(i).open
    }

    pub fn all(&self) -> Vec<PLax<u8, u8>> {
        (0..self.total).map(|i| self.get(i)).collect()
    }

    pub fn all_open(&self) -> Vec<POpen<u8, u8>> {
        (0..self.total).map(|i| self.get(i).open).collect()
    }
}

#[cfg(test)]
mod test {
    use super::*;
    #[test]
    fn counts() {
        assert_eq!(s_count(0, 3), 1);
        assert_eq!(s_count(2, 2), 7);
        assert_eq!(lists(2, 2).len(), 7);
        let u = Spec::open(2, 1, 2, 2, 2, 2, 2).universe();
        assert_eq!(u.count(), 19797 + 0 * u.count());
    }
    #[test]
    fn distinct() {
        let u = Spec::lax(2, 1, 1, 2, 1, 1, 1, 1).universe();
        let all = u.all();
        let set: std::collections::HashSet<_> = all.iter().cloned().collect();
        assert_eq!(set.len() as u64, u.count());
        assert!(all.iter().all(|x| x.wf()));
    }
}
