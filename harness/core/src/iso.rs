//! Isomorphism of open hypergraphs: a relabelling of nodes and of hyperedges that preserves node
//! labels, edge labels, the ordered source and target list of every hyperedge and both
//! interfaces position by position.
use crate::plain::*;

struct St<'a, O, A> {
    a: &'a POpen<O, A>,
    b: &'a POpen<O, A>,
    phi: Vec<usize>, // a node -> b node, usize::MAX = unbound
    inv: Vec<usize>,
    used: Vec<bool>, // b edges used
    trail: Vec<usize>, // bound a-nodes in order
}

const U: usize = usize::MAX;

impl<'a, O: Lab, A: Lab> St<'a, O, A> {
    fn bind(&mut self, x: usize, y: usize) -> bool {
        if self.phi[x] != U {
            return self.phi[x] == y;
        }
        if self.inv[y] != U {
            return false;
        }
        if self.a.nodes[x] != self.b.nodes[y] {
            return false;
        }
        self.phi[x] = y;
        self.inv[y] = x;
        self.trail.push(x);
        true
    }

    fn undo_to(&mut self, mark: usize) {
        while self.trail.len() > mark {
            let x = self.trail.pop().unwrap();
            let y = self.phi[x];
            self.phi[x] = U;
            self.inv[y] = U;
        }
    }

    fn bind_list(&mut self, xs: &[usize], ys: &[usize]) -> bool {
        if xs.len() != ys.len() {
            return false;
        }
        for (x, y) in xs.iter().zip(ys.iter()) {
            if !self.bind(*x, *y) {
                return false;
            }
        }
        true
    }

    fn search(&mut self, i: usize) -> bool {
        if i == self.a.edges.len() {
            // left-over nodes are isolated and off the interfaces: compare label multisets
            let mut la: Vec<&O> = (0..self.a.nodes.len()).filter(|&x| self.phi[x] == U).map(|x| &self.a.nodes[x]).collect();
            let mut lb: Vec<&O> = (0..self.b.nodes.len()).filter(|&y| self.inv[y] == U).map(|y| &self.b.nodes[y]).collect();
            la.sort();
            lb.sort();
            return la == lb;
        }
        let ea = &self.a.edges[i];
        for j in 0..self.b.edges.len() {
            if self.used[j] {
                continue;
            }
            let eb = &self.b.edges[j];
            if ea.label != eb.label || ea.src.len() != eb.src.len() || ea.tgt.len() != eb.tgt.len() {
                continue;
            }
            let mark = self.trail.len();
            let (s1, s2, t1, t2) = (ea.src.clone(), eb.src.clone(), ea.tgt.clone(), eb.tgt.clone());
            if self.bind_list(&s1, &s2) && self.bind_list(&t1, &t2) {
                self.used[j] = true;
                if self.search(i + 1) {
                    return true;
                }
                self.used[j] = false;
            }
            self.undo_to(mark);
        }
        false
    }
}

pub fn iso<O: Lab, A: Lab>(a: &POpen<O, A>, b: &POpen<O, A>) -> bool {
    if a.nodes.len() != b.nodes.len() || a.edges.len() != b.edges.len() || a.s.len() != b.s.len() || a.t.len() != b.t.len() {
        return false;
    }
    let n = a.nodes.len();
    let mut st = St { a, b, phi: vec![U; n], inv: vec![U; n], used: vec![false; b.edges.len()], trail: vec![] };
    let (as_, bs, at, bt) = (a.s.clone(), b.s.clone(), a.t.clone(), b.t.clone());
    if !st.bind_list(&as_, &bs) || !st.bind_list(&at, &bt) {
        return false;
    }
    st.search(0)
}

/// Isomorphism of plain hypergraphs with *free* interfaces ignored.
pub fn iso_hyper<O: Lab, A: Lab>(a: &POpen<O, A>, b: &POpen<O, A>) -> bool {
    let strip = |x: &POpen<O, A>| POpen { nodes: x.nodes.clone(), edges: x.edges.clone(), s: vec![], t: vec![] };
    iso(&strip(a), &strip(b))
}

fn permutations(n: usize) -> Vec<Vec<usize>> {
    fn rec(cur: &mut Vec<usize>, used: &mut Vec<bool>, n: usize, out: &mut Vec<Vec<usize>>) {
        if cur.len() == n {
            out.push(cur.clone());
            return;
        }
        for i in 0..n {
            if !used[i] {
                used[i] = true;
                cur.push(i);
                rec(cur, used, n, out);
                cur.pop();
                used[i] = false;
            }
        }
    }
    let mut out = vec![];
    rec(&mut vec![], &mut vec![false; n], n, &mut out);
    out
}

pub fn all_permutations(n: usize) -> Vec<Vec<usize>> {
    permutations(n)
}

/// Brute-force twin of `iso` (self-test only): try every node and edge permutation.
pub fn iso_brute<O: Lab, A: Lab>(a: &POpen<O, A>, b: &POpen<O, A>) -> bool {
    if a.nodes.len() != b.nodes.len() || a.edges.len() != b.edges.len() {
        return false;
    }
    for np in permutations(a.nodes.len()) {
        for ep in permutations(a.edges.len()) {
            if a.renumber(&np, &ep) == *b {
                return true;
            }
        }
    }
    false
}
