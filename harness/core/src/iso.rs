//! Isomorphism of open hypergraphs: a relabelling of nodes and of hyperedges that preserves node
//! labels, edge labels, the ordered source and target list of every hyperedge and both
//! interfaces position by position.
use crate::plain::*;

struct St<'a, O, A> {
    a: &'a POpen<O, A>,
    b: &'a POpen<O, A>,
    phi: Vec<usize>, // a node -> b node, usize::MAX = unbound
    inv: Vec<usize>,
    used: Vec<bool>, // b edges used
    trail: Vec<usize>, // bound a-nodes in order
}

const U: usize = usize::MAX;

impl<'a, O: Lab, A: Lab> St<'a, O, A> {
    fn bind(&mut self, x: usize, y: usize) -> bool {
        if self.phi[x] != U {
            return self.phi[x] == y;
        }
        if self.inv[y] != U {
            return false;
        }
        if self.a.nodes[x] != self.b.nodes[y] {
            return false;
        }
        self.phi[x] = y;
        self.inv[y] = x;
        self.trail.push(x);
        true
    }

    fn undo_to(&mut self, mark: usize) {
        while self.trail.len() > mark {
            let x = self.trail.pop().unwrap();
            let y = self.phi[x];
            self.phi[x] = U;
            self.inv[y] = U;
        }
    }

    fn bind_list(&mut self, xs: &[usize], ys: &[usize]) -> bool {
        if xs.len() != ys.len() {
            return false;
        }
        for (x, y) in xs.iter().zip(ys.iter()) {
            if !self.bind(*x, *y) {
                return false;
            }
        }
        true
    }

    fn search(&mut self, i: usize) -> bool {
        if i == self.a.edges.len() {
            // left-over nodes are isolated and off the interfaces: compare label multisets
            let mut la: Vec<&O> = (0..self.a.nodes.len()).filter(|&x| self.phi[x] == U).map(|x| &self.a.nodes[x]).collect();
            let mut lb: Vec<&O> = (0..self.b.nodes.len()).filter(|&y| self.inv[y] == U).map(|y| &self.b.nodes[y]).collect();
            la.sort();
            lb.sort();
            return la == lb;
        }
        let ea = &self.a.edges[i];
        for j in 0..self.b.edges.len() {
            if self.used[j] {
                continue;
            }
            let eb = &self.b.edges[j];
            if ea.label != eb.label || ea.src.len() != eb.src.len() || ea.tgt.len() != eb.tgt.len() {
                continue;
            }
            let mark = self.trail.len();
            let (s1, s2, t1, t2) = (ea.src.clone(), eb.src.clone(), ea.tgt.clone(), eb.tgt.clone());
            if self.bind_list(&s1, &s2) && self.bind_list(&t1, &t2) {
                self.used[j] = true;
                if self.search(i + 1) {
                    return true;
                }
                self.used[j] = false;
            }
            self.undo_to(mark);
        }
        false
    }
}

/// The first, simpler decision procedure (hyperedges of `a` in index order, every unused hyperedge of `b` as a
/// candidate). Kept as an independent twin of `iso` for the self-test; exponential on large symmetric inputs.
pub fn iso_simple<O: Lab, A: Lab>(a: &POpen<O, A>, b: &POpen<O, A>) -> bool {
    if a.nodes.len() != b.nodes.len() || a.edges.len() != b.edges.len() || a.s.len() != b.s.len() || a.t.len() != b.t.len() {
        return false;
    }
    let n = a.nodes.len();
    let mut st = St { a, b, phi: vec![U; n], inv: vec![U; n], used: vec![false; b.edges.len()], trail: vec![] };
    let (as_, bs, at, bt) = (a.s.clone(), b.s.clone(), a.t.clone(), b.t.clone());
    if !st.bind_list(&as_, &bs) || !st.bind_list(&at, &bt) {
        return false;
    }
    st.search(0)
}

// ---------------------------------------------------------------------------------------------
// Propagating search: always extend the partial map along a hyperedge of `a` that already has a
// bound node (its candidates in `b` are then the few hyperedges incident to the image node at the
// same position), preferring the one with the fewest candidates; only when no such hyperedge
// exists is a fresh hyperedge matched against every unused hyperedge of `b` with the same
// signature. Complete (every candidate is tried on backtracking), and linear-ish on the large
// structured families where the index-order search above is exponential.

struct Pr<'a, O, A> {
    a: &'a POpen<O, A>,
    b: &'a POpen<O, A>,
    phi: Vec<usize>,
    inv: Vec<usize>,
    em: Vec<usize>,    // a edge -> b edge
    used: Vec<bool>,   // b edges used
    trail: Vec<usize>, // bound a-nodes
    inc_a: Vec<Vec<(usize, bool, usize)>>, // node -> (edge, is_target, position)
    inc_b: Vec<Vec<(usize, bool, usize)>>,
    matched: usize,
    // iso-invariant colours from colour refinement (equal colours are necessary for x -> y / i -> j)
    nca: Vec<u64>,
    ncb: Vec<u64>,
    eca: Vec<u64>,
    ecb: Vec<u64>,
}

impl<'a, O: Lab, A: Lab> Pr<'a, O, A> {
    fn bind(&mut self, x: usize, y: usize) -> bool {
        if self.phi[x] != U {
            return self.phi[x] == y;
        }
        if self.inv[y] != U || self.a.nodes[x] != self.b.nodes[y] || self.nca[x] != self.ncb[y] {
            return false;
        }
        self.phi[x] = y;
        self.inv[y] = x;
        self.trail.push(x);
        true
    }

    fn undo_to(&mut self, mark: usize) {
        while self.trail.len() > mark {
            let x = self.trail.pop().unwrap();
            let y = self.phi[x];
            self.phi[x] = U;
            self.inv[y] = U;
        }
    }

    /// could a-edge i be sent to b-edge j under the current partial map (without binding)?
    fn compatible(&self, i: usize, j: usize) -> bool {
        let (ea, eb) = (&self.a.edges[i], &self.b.edges[j]);
        if self.used[j] || ea.label != eb.label || ea.src.len() != eb.src.len() || ea.tgt.len() != eb.tgt.len() || self.eca[i] != self.ecb[j] {
            return false;
        }
        let ok = |x: usize, y: usize| if self.phi[x] != U { self.phi[x] == y } else { self.inv[y] == U && self.a.nodes[x] == self.b.nodes[y] && self.nca[x] == self.ncb[y] };
        ea.src.iter().zip(eb.src.iter()).all(|(&x, &y)| ok(x, y)) && ea.tgt.iter().zip(eb.tgt.iter()).all(|(&x, &y)| ok(x, y))
    }

    /// candidates of a-edge i: through its first bound node if it has one (Some), else None
    fn candidates_via_bound(&self, i: usize) -> Option<Vec<usize>> {
        let ea = &self.a.edges[i];
        let pick = ea.src.iter().enumerate().map(|(p, &x)| (false, p, x)).chain(ea.tgt.iter().enumerate().map(|(p, &x)| (true, p, x))).filter(|&(_, _, x)| self.phi[x] != U).min_by_key(|&(_, _, x)| self.inc_b[self.phi[x]].len());
        let (side, pos, x) = pick?;
        let y = self.phi[x];
        let mut out: Vec<usize> = self.inc_b[y].iter().filter(|&&(j, sd, ps)| sd == side && ps == pos && self.compatible(i, j)).map(|&(j, _, _)| j).collect();
        out.dedup();
        Some(out)
    }

    fn try_edge(&mut self, i: usize, j: usize) -> bool {
        let mark = self.trail.len();
        let (s1, s2, t1, t2) = (self.a.edges[i].src.clone(), self.b.edges[j].src.clone(), self.a.edges[i].tgt.clone(), self.b.edges[j].tgt.clone());
        let ok = s1.iter().zip(s2.iter()).all(|(&x, &y)| self.bind(x, y)) && t1.iter().zip(t2.iter()).all(|(&x, &y)| self.bind(x, y));
        if ok {
            self.em[i] = j;
            self.used[j] = true;
            self.matched += 1;
            if self.search() {
                return true;
            }
            self.matched -= 1;
            self.used[j] = false;
            self.em[i] = U;
        }
        self.undo_to(mark);
        false
    }

    fn search(&mut self) -> bool {
        let m = self.a.edges.len();
        if self.matched == m {
            let mut la: Vec<&O> = (0..self.a.nodes.len()).filter(|&x| self.phi[x] == U).map(|x| &self.a.nodes[x]).collect();
            let mut lb: Vec<&O> = (0..self.b.nodes.len()).filter(|&y| self.inv[y] == U).map(|y| &self.b.nodes[y]).collect();
            la.sort();
            lb.sort();
            return la == lb;
        }
        // choose the unmatched hyperedge with a bound node and the fewest candidates (stop at a forced one;
        // look at no more than 24 frontier hyperedges)
        let mut best: Option<(usize, Vec<usize>)> = None;
        let mut looked = 0;
        // start from the neighbourhood of the most recently bound nodes: they are the likeliest to be forced
        let recent: Vec<usize> = self.trail.iter().rev().take(8).flat_map(|&x| self.inc_a[x].iter().map(|t| t.0)).collect();
        for i in recent.into_iter().chain(0..m) {
            if self.em[i] != U {
                continue;
            }
            if let Some(c) = self.candidates_via_bound(i) {
                looked += 1;
                if c.is_empty() {
                    return false;
                }
                let better = best.as_ref().map(|(_, bc)| c.len() < bc.len()).unwrap_or(true);
                let forced = c.len() == 1;
                if better {
                    best = Some((i, c));
                }
                if forced || looked >= 24 {
                    break;
                }
            }
        }
        let (i, cands) = match best {
            Some(x) => x,
            None => {
                // no unmatched hyperedge touches a bound node: start a new component
                let i = (0..m).find(|&i| self.em[i] == U).unwrap();
                let c: Vec<usize> = (0..self.b.edges.len()).filter(|&j| self.compatible(i, j)).collect();
                (i, c)
            }
        };
        for j in cands {
            if self.try_edge(i, j) {
                return true;
            }
        }
        false
    }
}

fn incidences<O, A>(f: &POpen<O, A>) -> Vec<Vec<(usize, bool, usize)>> {
    let mut inc = vec![vec![]; f.nodes.len()];
    for (e, ed) in f.edges.iter().enumerate() {
        for (p, &x) in ed.src.iter().enumerate() {
            inc[x].push((e, false, p));
        }
        for (p, &x) in ed.tgt.iter().enumerate() {
            inc[x].push((e, true, p));
        }
    }
    inc
}

fn h64<T: std::hash::Hash>(t: &T) -> u64 {
    use std::hash::Hasher;
    let mut h = std::collections::hash_map::DefaultHasher::new(); // fixed keys: deterministic
    t.hash(&mut h);
    h.finish()
}

/// Colour refinement (1-dimensional Weisfeiler-Leman on the incidence structure): node colours start from
/// (label, positions in the two interfaces) and are refined by the colours of the incident hyperedges
/// (with side and position), hyperedge colours by (label, ordered colours of sources and targets), until
/// the number of classes stops growing. Computed identically on both diagrams, so any isomorphism
/// preserves the colours: unequal colour multisets refute isomorphism, and colours restrict candidates.
fn refine<O: Lab, A: Lab>(f: &POpen<O, A>, inc: &[Vec<(usize, bool, usize)>]) -> (Vec<u64>, Vec<u64>) {
    let n = f.nodes.len();
    let mut pos_s: Vec<Vec<usize>> = vec![vec![]; n];
    let mut pos_t: Vec<Vec<usize>> = vec![vec![]; n];
    for (p, &x) in f.s.iter().enumerate() {
        pos_s[x].push(p);
    }
    for (p, &x) in f.t.iter().enumerate() {
        pos_t[x].push(p);
    }
    let mut nc: Vec<u64> = (0..n).map(|x| h64(&(&f.nodes[x], &pos_s[x], &pos_t[x]))).collect();
    let mut ec: Vec<u64> = vec![0; f.edges.len()];
    let distinct = |v: &[u64]| {
        let mut w = v.to_vec();
        w.sort();
        w.dedup();
        w.len()
    };
    let mut classes = 0usize;
    for _round in 0..(n + f.edges.len() + 1) {
        for (e, ed) in f.edges.iter().enumerate() {
            let sc: Vec<u64> = ed.src.iter().map(|&x| nc[x]).collect();
            let tc: Vec<u64> = ed.tgt.iter().map(|&x| nc[x]).collect();
            ec[e] = h64(&(&ed.label, sc, tc));
        }
        let mut next = vec![0u64; n];
        for x in 0..n {
            let mut around: Vec<(u64, bool, usize)> = inc[x].iter().map(|&(e, side, p)| (ec[e], side, p)).collect();
            around.sort();
            next[x] = h64(&(nc[x], around));
        }
        nc = next;
        let now = distinct(&nc) + distinct(&ec);
        if now <= classes {
            break;
        }
        classes = now;
    }
    (nc, ec)
}

/// The propagating search with colour refinement (used by `iso` for everything but tiny inputs).
pub fn iso_refined<O: Lab, A: Lab>(a: &POpen<O, A>, b: &POpen<O, A>) -> bool {
    if a.nodes.len() != b.nodes.len() || a.edges.len() != b.edges.len() || a.s.len() != b.s.len() || a.t.len() != b.t.len() {
        return false;
    }
    let (inc_a, inc_b) = (incidences(a), incidences(b));
    let ((nca, eca), (ncb, ecb)) = (refine(a, &inc_a), refine(b, &inc_b));
    let sorted = |v: &[u64]| {
        let mut w = v.to_vec();
        w.sort();
        w
    };
    if sorted(&nca) != sorted(&ncb) || sorted(&eca) != sorted(&ecb) {
        return false;
    }
    let n = a.nodes.len();
    let mut st = Pr { a, b, phi: vec![U; n], inv: vec![U; n], em: vec![U; a.edges.len()], used: vec![false; b.edges.len()], trail: vec![], inc_a, inc_b, matched: 0, nca, ncb, eca, ecb };
    for (x, y) in a.s.iter().zip(b.s.iter()).chain(a.t.iter().zip(b.t.iter())) {
        if !st.bind(*x, *y) {
            return false;
        }
    }
    st.search()
}

/// Isomorphism of open hypergraphs (interfaces pinned position by position): the simple search on tiny
/// inputs (where it is fastest), the refined propagating search otherwise. The self-test checks both against
/// brute force and against each other.
pub fn iso<O: Lab, A: Lab>(a: &POpen<O, A>, b: &POpen<O, A>) -> bool {
    if a.nodes.len() + a.edges.len() <= 10 {
        iso_simple(a, b)
    } else {
        iso_refined(a, b)
    }
}

/// Isomorphism of plain hypergraphs with *free* interfaces ignored.
pub fn iso_hyper<O: Lab, A: Lab>(a: &POpen<O, A>, b: &POpen<O, A>) -> bool {
    let strip = |x: &POpen<O, A>| POpen { nodes: x.nodes.clone(), edges: x.edges.clone(), s: vec![], t: vec![] };
    iso(&strip(a), &strip(b))
}

fn permutations(n: usize) -> Vec<Vec<usize>> {
    fn rec(cur: &mut Vec<usize>, used: &mut Vec<bool>, n: usize, out: &mut Vec<Vec<usize>>) {
        if cur.len() == n {
            out.push(cur.clone());
            return;
        }
        for i in 0..n {
            if !used[i] {
                used[i] = true;
                cur.push(i);
                rec(cur, used, n, out);
                cur.pop();
                used[i] = false;
            }
        }
    }
    let mut out = vec![];
    rec(&mut vec![], &mut vec![false; n], n, &mut out);
    out
}

pub fn all_permutations(n: usize) -> Vec<Vec<usize>> {
    permutations(n)
}

/// Brute-force twin of `iso` (self-test only): try every node and edge permutation.
pub fn iso_brute<O: Lab, A: Lab>(a: &POpen<O, A>, b: &POpen<O, A>) -> bool {
    if a.nodes.len() != b.nodes.len() || a.edges.len() != b.edges.len() {
        return false;
    }
    for np in permutations(a.nodes.len()) {
        for ep in permutations(a.edges.len()) {
            if a.renumber(&np, &ep) == *b {
                return true;
            }
        }
    }
    false
}
