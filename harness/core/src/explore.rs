//! Parallel exhaustive driver, counters, evidence and replay files.
use rayon::prelude::*;
use serde_json::{json, Value};
use std::cell::RefCell;
use std::collections::hash_map::DefaultHasher;
use std::collections::HashSet;
use std::hash::{Hash, Hasher};
use std::panic::{catch_unwind, AssertUnwindSafe};
use std::sync::atomic::{AtomicBool, AtomicU64, Ordering};
use std::time::{Duration, Instant};

#[derive(Clone, Copy, PartialEq, Eq, Debug)]
pub enum Tier {
    Quick,
    Thorough,
}

thread_local! {
    static LAST_PANIC: RefCell<String> = RefCell::new(String::new());
}

/// Install a silent panic hook that remembers message and location per thread.
pub fn install_panic_hook() {
    std::panic::set_hook(Box::new(|info| {
        let msg = if let Some(s) = info.payload().downcast_ref::<&str>() {
            s.to_string()
        } else if let Some(s) = info.payload().downcast_ref::<String>() {
            s.clone()
        } else {
            "<non-string panic>".to_string()
        };
        let loc = info.location().map(|l| format!("{}:{}", l.file(), l.line())).unwrap_or_default();
        LAST_PANIC.with(|p| *p.borrow_mut() = format!("{} @ {}", msg, loc));
    }));
}

/// Run a piece of library code; a panic becomes `Err(message @ location)`.
pub fn catch<R>(f: impl FnOnce() -> R) -> Result<R, String> {
    match catch_unwind(AssertUnwindSafe(f)) {
        Ok(r) => Ok(r),
        Err(_) => Err(LAST_PANIC.with(|p| p.borrow().clone())),
    }
}

pub fn stable_hash<H: Hash>(h: &H) -> u64 {
    let mut s = DefaultHasher::new(); // SipHash with fixed keys: stable across runs
    h.hash(&mut s);
    s.finish()
}

fn splitmix(mut x: u64) -> u64 {
    x = x.wrapping_add(0x9E3779B97F4A7C15);
    let mut z = x;
    z = (z ^ (z >> 30)).wrapping_mul(0xBF58476D1CE4E5B9);
    z = (z ^ (z >> 27)).wrapping_mul(0x94D049BB133111EB);
    z ^ (z >> 31)
}

#[derive(Clone, Debug)]
pub struct Viol {
    pub slice: String,
    pub index: u64,
    pub kind: String,
    pub signature: String,
    pub detail: Value,
    pub profile: String,
}

const OUTCOME_CAP: usize = 2_000_000;

pub struct Local {
    pub cases: u64,
    pub transitions: u64,
    pub nontrivial: u64,
    pub states: u64,
    pub traces: u64,
    pub outcomes: HashSet<u64>,
    pub violations: Vec<Viol>,
    pub samples: Vec<Value>,
    pub want_sample: bool,
    pub verbose: bool,
    pub extra: std::collections::BTreeMap<String, u64>,
    /// failures of the harness itself (never verdicts)
    pub machinery: Vec<String>,
    cur_slice: String,
    cur_index: u64,
    nontrivial_marked: bool,
    viol_total: u64,
}

impl Local {
    /// a free-standing accumulator (self-tests)
    pub fn scratch() -> Local {
        Local::new()
    }
    fn new() -> Local {
        Local {
            cases: 0,
            transitions: 0,
            nontrivial: 0,
            states: 0,
            traces: 0,
            outcomes: HashSet::new(),
            violations: vec![],
            samples: vec![],
            want_sample: false,
            verbose: false,
            extra: Default::default(),
            machinery: vec![],
            cur_slice: String::new(),
            cur_index: 0,
            nontrivial_marked: false,
            viol_total: 0,
        }
    }
    /// count `n` real library calls whose result was compared with the reference
    pub fn trans(&mut self, n: u64) {
        self.transitions += n;
    }
    /// the current index stands for `n` additional enumerated cases (inner loops of a slice)
    pub fn more_cases(&mut self, n: u64) {
        self.cases += n;
    }
    /// count a non-trivial sub-case of an inner loop
    pub fn nontrivial_sub(&mut self) {
        self.nontrivial += 1;
    }
    /// mark the current case as non-trivial (at most once per case)
    pub fn nontrivial(&mut self) {
        if !self.nontrivial_marked {
            self.nontrivial_marked = true;
            self.nontrivial += 1;
        }
    }
    pub fn outcome<H: Hash>(&mut self, h: &H) {
        if self.outcomes.len() < OUTCOME_CAP {
            self.outcomes.insert(stable_hash(h));
        }
    }
    pub fn add(&mut self, key: &str, n: u64) {
        *self.extra.entry(key.to_string()).or_insert(0) += n;
    }
    pub fn violation(&mut self, kind: &str, detail: Value) {
        self.violation_sig(kind, kind, detail)
    }
    pub fn violation_sig(&mut self, kind: &str, signature: &str, detail: Value) {
        // a panic raised inside the harness's own sources is an engine failure, never a verdict
        let txt = detail.to_string();
        if (txt.contains("@ ohmc/src/") || txt.contains("@ core/src/")) && !txt.contains("LIBRARY:") {
            if self.machinery.len() < 5 {
                self.machinery.push(format!("panic inside the harness (slice {} index {} kind {}): {}", self.cur_slice, self.cur_index, kind, txt.chars().take(400).collect::<String>()));
            }
            if self.verbose {
                println!("  harness panic (not a verdict): {}", txt);
            }
            return;
        }
        self.viol_total += 1;
        if self.verbose {
            println!("  violation kind={} signature={}\n  detail={}", kind, signature, serde_json::to_string_pretty(&detail).unwrap());
        }
        self.violations.push(Viol {
            slice: self.cur_slice.clone(),
            index: self.cur_index,
            kind: kind.to_string(),
            signature: signature.to_string(),
            detail,
            profile: String::new(),
        });
        self.violations.sort_by(|a, b| (a.index, &a.kind).cmp(&(b.index, &b.kind)));
        self.violations.truncate(8);
    }
    pub fn sample(&mut self, f: impl FnOnce() -> Value) {
        if self.want_sample || self.verbose {
            let v = f();
            if self.verbose {
                println!("  case: {}", serde_json::to_string(&v).unwrap());
            }
            if self.want_sample {
                self.samples.push(json!({"slice": self.cur_slice, "index": self.cur_index, "case": v}));
            }
        }
    }
    fn merge(mut self, o: Local) -> Local {
        self.cases += o.cases;
        self.transitions += o.transitions;
        self.nontrivial += o.nontrivial;
        self.states += o.states;
        self.traces += o.traces;
        if self.outcomes.len() < o.outcomes.len() {
            let mut oo = o.outcomes;
            oo.extend(self.outcomes.drain());
            self.outcomes = oo;
        } else {
            self.outcomes.extend(o.outcomes);
        }
        self.violations.extend(o.violations);
        self.violations.sort_by(|a, b| (a.index, &a.kind).cmp(&(b.index, &b.kind)));
        self.violations.truncate(8);
        self.samples.extend(o.samples);
        for (k, v) in o.extra {
            *self.extra.entry(k).or_insert(0) += v;
        }
        self.viol_total += o.viol_total;
        for m in o.machinery {
            if self.machinery.len() < 5 {
                self.machinery.push(m);
            }
        }
        self
    }
}

pub struct Slice<'a> {
    pub name: String,
    pub count: u64,
    pub run: Box<dyn Fn(u64, &mut Local) + Sync + Send + 'a>,
    /// cases are cheap and uniform (parallelise in big chunks) or heavy (small chunks)
    pub heavy: bool,
}

impl<'a> Slice<'a> {
    pub fn new(name: impl Into<String>, count: u64, run: impl Fn(u64, &mut Local) + Sync + Send + 'a) -> Slice<'a> {
        Slice { name: name.into(), count, run: Box::new(run), heavy: false }
    }
    pub fn heavy(mut self) -> Self {
        self.heavy = true;
        self
    }
}

#[derive(Clone, Debug)]
pub struct SliceReport {
    pub name: String,
    pub count: u64,
    pub cases: u64,
    pub transitions: u64,
    pub nontrivial: u64,
    pub outcomes: u64,
    pub complete: bool,
    pub wall_s: f64,
    pub profile: String,
}

pub struct Meta {
    pub rule: String,
    pub bounds: String,
    pub assumptions: Vec<String>,
    pub explanation: String,
}

pub struct Ctx {
    pub prop: String,
    pub tier: Tier,
    pub seed: u64,
    pub replay: Option<(String, u64)>,
    pub replay_path: Option<String>,
    pub partial_out: Option<String>,
    pub fast_bin: Option<String>,
    pub profile: String,
    pub start: Instant,
    pub deadline: Instant,
    pub verif_dir: String,
    reports: Vec<SliceReport>,
    total: Option<Local>,
    pub machinery_errors: Vec<String>,
}

impl Ctx {
    /// Parse the command line: `<tier> [--replay path] [--partial-out path] [--fast-bin path]`.
    pub fn from_args(prop: &str) -> Ctx {
        install_panic_hook();
        let args: Vec<String> = std::env::args().skip(1).collect();
        let mut tier = match std::env::var("VERIF_TIER").ok().as_deref() {
            Some("thorough") => Tier::Thorough,
            _ => Tier::Quick,
        };
        let mut replay = None;
        let mut replay_path = None;
        let mut partial_out = None;
        let mut fast_bin = None;
        let mut i = 0;
        while i < args.len() {
            match args[i].as_str() {
                "quick" => tier = Tier::Quick,
                "thorough" => tier = Tier::Thorough,
                "--replay" => {
                    i += 1;
                    let p = args[i].clone();
                    let txt = std::fs::read_to_string(&p).unwrap_or_else(|e| {
                        eprintln!("cannot read replay file {}: {}", p, e);
                        std::process::exit(2)
                    });
                    let v: Value = serde_json::from_str(&txt).expect("replay file is not JSON");
                    replay = Some((v["slice"].as_str().unwrap().to_string(), v["index"].as_u64().unwrap()));
                    if v["tier"].as_str() == Some("thorough") {
                        tier = Tier::Thorough;
                    } else {
                        tier = Tier::Quick;
                    }
                    replay_path = Some(p);
                }
                "--partial-out" => {
                    i += 1;
                    partial_out = Some(args[i].clone());
                }
                "--fast-bin" => {
                    i += 1;
                    fast_bin = Some(args[i].clone());
                }
                other => {
                    eprintln!("unknown argument {}", other);
                    std::process::exit(2);
                }
            }
            i += 1;
        }
        let seed = std::env::var("VERIF_SEED").ok().and_then(|s| s.parse::<u64>().ok()).unwrap_or(0);
        let profile = std::env::var("OHMC_PROFILE").unwrap_or_else(|_| "checked".to_string());
        let cap_s: u64 = std::env::var("OHMC_CAP_S").ok().and_then(|s| s.parse().ok()).unwrap_or(match tier {
            Tier::Quick => 150,
            Tier::Thorough => 3600,
        });
        let start = Instant::now();
        let verif_dir = std::env::var("VERIF_DIR").unwrap_or_else(|_| "/verif".to_string());
        Ctx {
            prop: prop.to_string(),
            tier,
            seed,
            replay,
            replay_path,
            partial_out,
            fast_bin,
            profile,
            start,
            deadline: start + Duration::from_secs(cap_s),
            verif_dir,
            reports: vec![],
            total: None,
            machinery_errors: vec![],
        }
    }

    pub fn quick(&self) -> bool {
        self.tier == Tier::Quick
    }

    pub fn tier_name(&self) -> &'static str {
        match self.tier {
            Tier::Quick => "quick",
            Tier::Thorough => "thorough",
        }
    }

    /// Run one slice exhaustively (or, in replay mode, only the recorded case).
    pub fn run_slice(&mut self, sl: Slice) {
        if let Some((name, index)) = self.replay.clone() {
            if name != sl.name {
                return;
            }
            println!("replaying property={} slice={} index={} profile={}", self.prop, name, index, self.profile);
            let mut loc = Local::new();
            loc.verbose = true;
            loc.cur_slice = name.clone();
            loc.cur_index = index;
            loc.cases = 1;
            let r = catch(|| (sl.run)(index, &mut loc));
            if let Err(e) = r {
                self.machinery_errors.push(format!("harness panic while replaying: {}", e));
            }
            println!("replay finished: {} violation(s) in this case", loc.violations.len());
            for m in &loc.machinery {
                self.machinery_errors.push(m.clone());
            }
            self.total = Some(match self.total.take() {
                Some(t) => t.merge(loc),
                None => loc,
            });
            return;
        }
        let t0 = Instant::now();
        let count = sl.count;
        if std::env::var("OHMC_PLAN").is_ok() {
            // planning aid: print the size of every slice without running it
            eprintln!("[{} plan] {:<70} {:>14}{}", self.prop, sl.name, count, if sl.heavy { "  (heavy: inner loops)" } else { "" });
            return;
        }
        let threads = rayon::current_num_threads() as u64;
        let chunk = if sl.heavy { 1 } else { (count / (threads * 64)).clamp(1, 1 << 16) };
        let nchunks = (count + chunk - 1) / chunk.max(1);
        // no single slice may use more than 40% of the time that is left, so that one oversized slice cannot
        // starve the ones after it (a capped slice is reported as such: exhaustive=false)
        let now = Instant::now();
        let deadline = if self.deadline > now { now + (self.deadline - now).mul_f64(0.4) } else { self.deadline };
        let timed_out = AtomicBool::new(false);
        let skipped = AtomicU64::new(0);
        let harness_panic = std::sync::Mutex::new(None::<String>);
        // sample indices chosen from the seed only
        let nh = stable_hash(&sl.name);
        let sample_ix: Vec<u64> = if count == 0 { vec![] } else { (0..2u64).map(|k| splitmix(self.seed ^ nh ^ (k << 32)) % count).collect() };
        let name = sl.name.clone();
        let run = &sl.run;
        let acc = (0..nchunks)
            .into_par_iter()
            .fold(Local::new, |mut loc, c| {
                if Instant::now() > deadline {
                    timed_out.store(true, Ordering::Relaxed);
                    let lo = c * chunk;
                    let hi = ((c + 1) * chunk).min(count);
                    skipped.fetch_add(hi - lo, Ordering::Relaxed);
                    return loc;
                }
                if loc.cur_slice.is_empty() {
                    loc.cur_slice = name.clone();
                }
                let lo = c * chunk;
                let hi = ((c + 1) * chunk).min(count);
                for i in lo..hi {
                    loc.cur_index = i;
                    loc.cases += 1;
                    loc.nontrivial_marked = false;
                    loc.want_sample = sample_ix.contains(&i);
                    let r = catch(|| run(i, &mut loc));
                    if let Err(e) = r {
                        *harness_panic.lock().unwrap() = Some(format!("slice {} index {}: {}", name, i, e));
                    }
                }
                loc
            })
            .reduce(Local::new, |a, b| a.merge(b));
        if let Some(e) = harness_panic.into_inner().unwrap() {
            self.machinery_errors.push(format!("harness panic (not a verdict): {}", e));
        }
        let complete = !timed_out.load(Ordering::Relaxed);
        let rep = SliceReport {
            name: sl.name.clone(),
            count,
            cases: acc.cases,
            transitions: acc.transitions,
            nontrivial: acc.nontrivial,
            outcomes: acc.outcomes.len() as u64,
            complete,
            wall_s: t0.elapsed().as_secs_f64(),
            profile: self.profile.clone(),
        };
        eprintln!(
            "[{} {}] slice {:<40} cases={:>11} transitions={:>12} nontrivial={:>11} outcomes={:>8} viol={} {} {:.1}s",
            self.prop,
            self.profile,
            rep.name,
            rep.cases,
            rep.transitions,
            rep.nontrivial,
            rep.outcomes,
            acc.viol_total,
            if complete { "complete" } else { "CAPPED" },
            rep.wall_s
        );
        self.reports.push(rep);
        for m in &acc.machinery {
            self.machinery_errors.push(m.clone());
        }
        self.total = Some(match self.total.take() {
            Some(t) => t.merge(acc),
            None => acc,
        });
    }

    /// Record a sequentially executed piece of exploration (e.g. a BFS) as a slice.
    pub fn run_seq(&mut self, name: &str, f: impl FnOnce(&mut Local) -> bool) {
        if let Some((n, _)) = &self.replay {
            if n != name {
                return;
            }
        }
        if std::env::var("OHMC_PLAN").is_ok() {
            eprintln!("[{} plan] {:<70} (state-space search, size unknown before running)", self.prop, name);
            return;
        }
        let t0 = Instant::now();
        let mut loc = Local::new();
        loc.cur_slice = name.to_string();
        loc.verbose = self.replay.is_some();
        loc.want_sample = true;
        let r = catch(|| f(&mut loc));
        let complete = match r {
            Ok(c) => c,
            Err(e) => {
                self.machinery_errors.push(format!("harness panic (not a verdict) in {}: {}", name, e));
                false
            }
        };
        let rep = SliceReport {
            name: name.to_string(),
            count: loc.cases,
            cases: loc.cases,
            transitions: loc.transitions,
            nontrivial: loc.nontrivial,
            outcomes: loc.outcomes.len() as u64,
            complete,
            wall_s: t0.elapsed().as_secs_f64(),
            profile: self.profile.clone(),
        };
        eprintln!(
            "[{} {}] slice {:<40} cases={:>11} transitions={:>12} nontrivial={:>11} outcomes={:>8} viol={} {} {:.1}s",
            self.prop, self.profile, rep.name, rep.cases, rep.transitions, rep.nontrivial, rep.outcomes, loc.viol_total,
            if complete { "complete" } else { "CAPPED" }, rep.wall_s
        );
        self.reports.push(rep);
        for m in &loc.machinery {
            self.machinery_errors.push(m.clone());
        }
        self.total = Some(match self.total.take() {
            Some(t) => t.merge(loc),
            None => loc,
        });
    }

    pub fn timed_out(&self) -> bool {
        Instant::now() > self.deadline
    }

    /// Write evidence / partial report, print VIOLATION / KNOWN-FINDING lines, and return the exit code.
    pub fn finish(mut self, meta: Meta) -> i32 {
        let mut total = self.total.take().unwrap_or_else(Local::new);
        for v in total.violations.iter_mut() {
            if v.profile.is_empty() {
                v.profile = self.profile.clone();
            }
        }
        if self.replay.is_some() {
            for e in &self.machinery_errors {
                eprintln!("MACHINERY-ERROR: {}", e);
            }
            if !self.machinery_errors.is_empty() {
                return 2;
            }
            if total.cases == 0 {
                eprintln!("MACHINERY-ERROR: replay slice not found in tier {}", self.tier_name());
                return 2;
            }
            if total.viol_total > 0 {
                println!("VIOLATION property={} replay={}", self.prop, self.replay_path.clone().unwrap_or_default());
                return 1;
            }
            return 0;
        }
        // partial mode (child process for a second build profile)
        if let Some(p) = &self.partial_out {
            let v = json!({
                "reports": self.reports.iter().map(report_json).collect::<Vec<_>>(),
                "cases": total.cases, "transitions": total.transitions, "nontrivial": total.nontrivial,
                "states": total.states, "traces": total.traces,
                "outcomes": total.outcomes.len(),
                "viol_total": total.viol_total,
                "violations": total.violations.iter().map(viol_json).collect::<Vec<_>>(),
                "samples": total.samples,
                "extra": total.extra,
                "machinery_errors": self.machinery_errors,
            });
            std::fs::write(p, serde_json::to_string(&v).unwrap()).expect("write partial");
            return if self.machinery_errors.is_empty() { 0 } else { 2 };
        }
        // merge the other build profile
        let mut extra_outcomes = 0u64;
        if let Some(fb) = self.fast_bin.clone() {
            let _ = std::fs::create_dir_all(format!("{}/evidence", self.verif_dir));
            let part = format!("{}/evidence/.partial-{}-{}.json", self.verif_dir, self.prop, std::process::id());
            let st = std::process::Command::new(&fb)
                .arg(self.tier_name())
                .arg("--partial-out")
                .arg(&part)
                .env("OHMC_PROFILE", "fast")
                .status();
            match st {
                Ok(s) if s.code() == Some(0) || s.code() == Some(2) => match std::fs::read_to_string(&part).ok().and_then(|t| serde_json::from_str::<Value>(&t).ok()) {
                    Some(v) => {
                        for r in v["reports"].as_array().unwrap() {
                            self.reports.push(SliceReport {
                                name: format!("{}@fast", r["name"].as_str().unwrap()),
                                count: r["count"].as_u64().unwrap(),
                                cases: r["cases"].as_u64().unwrap(),
                                transitions: r["transitions"].as_u64().unwrap(),
                                nontrivial: r["nontrivial"].as_u64().unwrap(),
                                outcomes: r["outcomes"].as_u64().unwrap(),
                                complete: r["complete"].as_bool().unwrap(),
                                wall_s: r["wall_s"].as_f64().unwrap(),
                                profile: "fast".into(),
                            });
                        }
                        total.cases += v["cases"].as_u64().unwrap();
                        total.transitions += v["transitions"].as_u64().unwrap();
                        total.states += v["states"].as_u64().unwrap();
                        total.traces += v["traces"].as_u64().unwrap();
                        // the fast profile re-runs the same cases: they are not new distinct cases
                        extra_outcomes = v["outcomes"].as_u64().unwrap();
                        total.viol_total += v["viol_total"].as_u64().unwrap();
                        for x in v["violations"].as_array().unwrap() {
                            total.violations.push(Viol {
                                slice: x["slice"].as_str().unwrap().to_string(),
                                index: x["index"].as_u64().unwrap(),
                                kind: x["kind"].as_str().unwrap().to_string(),
                                signature: x["signature"].as_str().unwrap().to_string(),
                                detail: x["detail"].clone(),
                                profile: "fast".into(),
                            });
                        }
                        for e in v["machinery_errors"].as_array().unwrap() {
                            self.machinery_errors.push(format!("fast profile: {}", e.as_str().unwrap()));
                        }
                        let _ = std::fs::remove_file(&part);
                    }
                    None => self.machinery_errors.push("fast-profile child wrote no partial report".into()),
                },
                other => self.machinery_errors.push(format!("fast-profile child failed: {:?}", other)),
            }
        }
        let _ = extra_outcomes;

        // known findings
        let kf_path = format!("{}/known_findings.json", self.verif_dir);
        let known: Vec<Value> = std::fs::read_to_string(&kf_path)
            .ok()
            .and_then(|t| serde_json::from_str::<Value>(&t).ok())
            .and_then(|v| v["findings"].as_array().cloned())
            .unwrap_or_default();
        let open: Vec<&Value> = known.iter().filter(|f| f["status"] == "open" && f["property"] == self.prop.as_str()).collect();
        let mut unknown: Vec<&Viol> = vec![];
        let mut known_hits: std::collections::BTreeMap<String, (u64, String)> = Default::default();
        for v in &total.violations {
            match open.iter().find(|f| f["signature"].as_str() == Some(v.signature.as_str())) {
                Some(f) => {
                    let e = known_hits.entry(f["id"].as_str().unwrap_or("?").to_string()).or_insert((0, f["what"].as_str().unwrap_or("").to_string()));
                    e.0 += 1;
                }
                None => unknown.push(v),
            }
        }
        for (id, (n, what)) in &known_hits {
            println!("KNOWN-FINDING: property={} {} {} (matched {} recorded violation(s) this run)", self.prop, id, what, n);
        }
        let exhaustive = self.reports.iter().all(|r| r.complete);
        let wall = self.start.elapsed().as_secs_f64();
        // replay files
        let mut viol_lines = vec![];
        for v in unknown.iter().take(5) {
            let path = format!("{}/replays/{}-{}-{}.json", self.verif_dir, self.prop, sanitize(&v.slice), v.index);
            let _ = std::fs::create_dir_all(format!("{}/replays", self.verif_dir));
            let body = json!({"property": self.prop, "tier": self.tier_name(), "slice": v.slice, "index": v.index, "profile": v.profile,
                "kind": v.kind, "signature": v.signature, "detail": v.detail});
            std::fs::write(&path, serde_json::to_string_pretty(&body).unwrap()).expect("write replay");
            viol_lines.push(format!("VIOLATION property={} replay={}", self.prop, path));
        }
        let states = total.cases + total.states;
        let mut samples = total.samples.clone();
        samples.truncate(12);
        if samples.is_empty() {
            samples.push(json!({"note": "no sample recorded"}));
        }
        let ev = json!({
            "property_id": self.prop,
            "tier": self.tier_name(),
            "seed": self.seed,
            "level": "model_checking",
            "coverage": {
                "states": states,
                "transitions": total.transitions,
                "traces_validated_against_impl": total.cases + total.traces,
                "samples": samples,
                "evaluations": total.cases,
                "distinct_nontrivial": total.nontrivial,
                "distinct_outcomes": total.outcomes.len(),
                "rule": meta.rule,
                "bounds": meta.bounds,
                "exhaustive": exhaustive,
                "explanation": meta.explanation,
                "slices": self.reports.iter().map(report_json).collect::<Vec<_>>(),
                "counters": total.extra,
                "known_findings_matched": known_hits.len(),
            },
            "assumptions": meta.assumptions,
            "wall_s": wall,
            "violations": unknown.len(),
        });
        let _ = std::fs::create_dir_all(format!("{}/evidence", self.verif_dir));
        let evp = format!("{}/evidence/{}.json", self.verif_dir, self.prop);
        std::fs::write(&evp, serde_json::to_string_pretty(&ev).unwrap()).expect("write evidence");
        println!(
            "{} {}: cases={} transitions={} nontrivial={} distinct_outcomes={} exhaustive={} violations={} wall={:.1}s evidence={}",
            self.prop,
            self.tier_name(),
            total.cases,
            total.transitions,
            total.nontrivial,
            total.outcomes.len(),
            exhaustive,
            unknown.len(),
            wall,
            evp
        );
        for e in &self.machinery_errors {
            eprintln!("MACHINERY-ERROR: {}", e);
        }
        // violations are recorded case by case and reproduce from their replay files, so they are
        // reported even if some other case made the harness itself fail
        if !unknown.is_empty() {
            for l in viol_lines {
                println!("{}", l);
            }
            return 1;
        }
        if !self.machinery_errors.is_empty() {
            return 2;
        }
        0
    }
}

fn sanitize(s: &str) -> String {
    s.chars().map(|c| if c.is_ascii_alphanumeric() || c == '-' || c == '_' || c == '.' { c } else { '_' }).collect()
}

fn report_json(r: &SliceReport) -> Value {
    json!({"name": r.name, "count": r.count, "cases": r.cases, "transitions": r.transitions, "nontrivial": r.nontrivial,
        "outcomes": r.outcomes, "complete": r.complete, "wall_s": r.wall_s, "profile": r.profile})
}

fn viol_json(v: &Viol) -> Value {
    json!({"slice": v.slice, "index": v.index, "kind": v.kind, "signature": v.signature, "detail": v.detail, "profile": v.profile})
}
