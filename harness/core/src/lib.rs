pub mod explore;
pub mod iso;
pub mod plain;
pub mod uni;
