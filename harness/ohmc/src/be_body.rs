// This file is `include!`d twice: once with K = VecKind / Arr = VecArray (module `onvec`) and
// once with K = AdvKind / Arr = AdvArray (module `onadv`). It is the adapter layer
// "plain model in, plain model out" around the backend-generic (strict) part of the library.

use ohmc_core::explore::catch;
use ohmc_core::plain::*;
use open_hypergraphs::category::*;
use open_hypergraphs::finite_function::FiniteFunction;
use open_hypergraphs::indexed_coproduct::{HasLen, IndexedCoproduct};
use open_hypergraphs::operations::Operations;
use open_hypergraphs::semifinite::SemifiniteFunction;
use open_hypergraphs::strict;
use open_hypergraphs::array::{Array, NaturalArray, OrdArray};

pub type FF = FiniteFunction<K>;
pub type SF<T> = SemifiniteFunction<K, T>;
pub type IC<F> = IndexedCoproduct<K, F>;
pub type SOpen<O, A> = strict::OpenHypergraph<K, O, A>;
pub type SHyper<O, A> = strict::Hypergraph<K, O, A>;

use crate::ops::{Fail, Res};

/// raw finite function (no check)
pub fn ff(table: &[usize], target: usize) -> FF {
    FiniteFunction { table: Arr(table.to_vec()), target }
}

pub fn sf<T: Clone>(v: &[T]) -> SF<T> {
    SemifiniteFunction(Arr(v.to_vec()))
}

/// segmented array of finite functions from a list of lists (through the checked constructor)
pub fn seg(lists: &[Vec<usize>], codomain: usize) -> IC<FF> {
    let sizes: Vec<usize> = lists.iter().map(|l| l.len()).collect();
    let values: Vec<usize> = lists.iter().flatten().cloned().collect();
    IndexedCoproduct::from_semifinite(SemifiniteFunction(Arr(sizes)), ff(&values, codomain)).expect("LIBRARY: checked constructor rejected a well-formed segmented array")
}

pub fn seg_sf<T: Clone>(lists: &[Vec<T>]) -> IC<SF<T>> {
    let sizes: Vec<usize> = lists.iter().map(|l| l.len()).collect();
    let values: Vec<T> = lists.iter().flatten().cloned().collect();
    IndexedCoproduct::from_semifinite(SemifiniteFunction(Arr(sizes)), SemifiniteFunction(Arr(values))).expect("LIBRARY: checked constructor rejected a well-formed segmented array")
}

pub fn build_hyper<O: Lab, A: Lab>(p: &POpen<O, A>) -> SHyper<O, A> {
    let n = p.nodes.len();
    let srcs: Vec<Vec<usize>> = p.edges.iter().map(|e| e.src.clone()).collect();
    let tgts: Vec<Vec<usize>> = p.edges.iter().map(|e| e.tgt.clone()).collect();
    let labels: Vec<A> = p.edges.iter().map(|e| e.label.clone()).collect();
    strict::Hypergraph { s: seg(&srcs, n), t: seg(&tgts, n), w: sf(&p.nodes), x: sf(&labels) }
}

pub fn build_open<O: Lab, A: Lab>(p: &POpen<O, A>) -> SOpen<O, A> {
    let n = p.nodes.len();
    strict::OpenHypergraph { s: ff(&p.s, n), t: ff(&p.t, n), h: build_hyper(p) }
}

/// Deep well-formedness check + decoding of a segmented array of finite functions.
pub fn decode_seg(ic: &IC<FF>, what: &str) -> Result<Vec<Vec<usize>>, String> {
    let sizes: &Vec<usize> = &ic.sources.table.0;
    let vals: &Vec<usize> = &ic.values.table.0;
    let sum: usize = sizes.iter().sum();
    if ic.sources.target != sum + 1 {
        return Err(format!("{}: sources.target = {} but sum of sizes + 1 = {}", what, ic.sources.target, sum + 1));
    }
    if vals.len() != sum {
        return Err(format!("{}: |values| = {} but sizes sum to {}", what, vals.len(), sum));
    }
    if let Some(v) = vals.iter().find(|&&v| v >= ic.values.target) {
        return Err(format!("{}: value {} out of range (codomain {})", what, v, ic.values.target));
    }
    let mut out = vec![];
    let mut p = 0;
    for &k in sizes {
        out.push(vals[p..p + k].to_vec());
        p += k;
    }
    Ok(out)
}

pub fn decode_seg_sf<T: Clone>(ic: &IC<SF<T>>, what: &str) -> Result<Vec<Vec<T>>, String> {
    let sizes: &Vec<usize> = &ic.sources.table.0;
    let vals: &Vec<T> = &ic.values.0 .0;
    let sum: usize = sizes.iter().sum();
    if ic.sources.target != sum + 1 {
        return Err(format!("{}: sources.target = {} but sum of sizes + 1 = {}", what, ic.sources.target, sum + 1));
    }
    if vals.len() != sum {
        return Err(format!("{}: |values| = {} but sizes sum to {}", what, vals.len(), sum));
    }
    let mut out = vec![];
    let mut p = 0;
    for &k in sizes {
        out.push(vals[p..p + k].to_vec());
        p += k;
    }
    Ok(out)
}

pub fn decode_ff(f: &FF, what: &str) -> Result<Vec<usize>, String> {
    if let Some(v) = f.table.0.iter().find(|&&v| v >= f.target) {
        return Err(format!("{}: table entry {} out of range (codomain {})", what, v, f.target));
    }
    Ok(f.table.0.clone())
}

/// Deep well-formedness check + decoding of a hypergraph (interfaces empty).
pub fn decode_hyper<O: Lab, A: Lab>(h: &SHyper<O, A>) -> Result<POpen<O, A>, String> {
    let nodes: Vec<O> = h.w.0 .0.clone();
    let labels: Vec<A> = h.x.0 .0.clone();
    let n = nodes.len();
    let srcs = decode_seg(&h.s, "h.s")?;
    let tgts = decode_seg(&h.t, "h.t")?;
    if srcs.len() != labels.len() {
        return Err(format!("{} source lists for {} hyperedges", srcs.len(), labels.len()));
    }
    if tgts.len() != labels.len() {
        return Err(format!("{} target lists for {} hyperedges", tgts.len(), labels.len()));
    }
    if h.s.values.target != n {
        return Err(format!("h.s.values.target = {} but there are {} nodes", h.s.values.target, n));
    }
    if h.t.values.target != n {
        return Err(format!("h.t.values.target = {} but there are {} nodes", h.t.values.target, n));
    }
    let edges = labels.into_iter().zip(srcs.into_iter().zip(tgts.into_iter())).map(|(label, (src, tgt))| PEdge { label, src, tgt }).collect();
    Ok(POpen { nodes, edges, s: vec![], t: vec![] })
}

pub fn decode_open<O: Lab, A: Lab>(f: &SOpen<O, A>) -> Result<POpen<O, A>, String> {
    let mut p = decode_hyper(&f.h)?;
    let n = p.nodes.len();
    if f.s.target != n {
        return Err(format!("s.target = {} but there are {} nodes", f.s.target, n));
    }
    if f.t.target != n {
        return Err(format!("t.target = {} but there are {} nodes", f.t.target, n));
    }
    p.s = decode_ff(&f.s, "s")?;
    p.t = decode_ff(&f.t, "t")?;
    Ok(p)
}

fn dec<O: Lab, A: Lab>(r: Result<SOpen<O, A>, String>) -> Res<POpen<O, A>> {
    match r {
        Err(p) => Err(Fail::Panic(p)),
        Ok(f) => decode_open(&f).map_err(Fail::Malformed),
    }
}

fn dec_opt<O: Lab, A: Lab>(r: Result<Option<SOpen<O, A>>, String>) -> Res<Option<POpen<O, A>>> {
    match r {
        Err(p) => Err(Fail::Panic(p)),
        Ok(None) => Ok(None),
        Ok(Some(f)) => decode_open(&f).map(Some).map_err(Fail::Malformed),
    }
}

fn pan<T>(r: Result<T, String>) -> Res<T> {
    r.map_err(Fail::Panic)
}

include!("be_c07.rs");
include!("be_c06.rs");
include!("be_c08.rs");
include!("be_c05.rs");

pub struct B;

impl crate::ops::StrictOps for B {
    const NAME: &'static str = BACKEND_NAME;

    fn compose<O: Lab, A: Lab>(f: &POpen<O, A>, g: &POpen<O, A>) -> Res<Option<POpen<O, A>>> {
        let (f, g) = (build_open(f), build_open(g));
        dec_opt(catch(|| Arrow::compose(&f, &g)))
    }
    fn compose_shr<O: Lab, A: Lab>(f: &POpen<O, A>, g: &POpen<O, A>) -> Res<Option<POpen<O, A>>> {
        let (f, g) = (build_open(f), build_open(g));
        dec_opt(catch(|| &f >> &g))
    }
    fn tensor<O: Lab, A: Lab>(f: &POpen<O, A>, g: &POpen<O, A>) -> Res<POpen<O, A>> {
        let (f, g) = (build_open(f), build_open(g));
        dec(catch(|| Monoidal::tensor(&f, &g)))
    }
    fn tensor_bitor<O: Lab, A: Lab>(f: &POpen<O, A>, g: &POpen<O, A>) -> Res<POpen<O, A>> {
        let (f, g) = (build_open(f), build_open(g));
        dec(catch(|| &f | &g))
    }
    fn unit<O: Lab, A: Lab>() -> Res<Vec<O>> {
        pan(catch(|| <SOpen<O, A> as Monoidal>::unit().0 .0))
    }
    fn identity<O: Lab, A: Lab>(w: &[O]) -> Res<POpen<O, A>> {
        dec(catch(|| <SOpen<O, A> as Arrow>::identity(sf(w))))
    }
    fn twist<O: Lab, A: Lab>(a: &[O], b: &[O]) -> Res<POpen<O, A>> {
        dec(catch(|| <SOpen<O, A> as SymmetricMonoidal>::twist(sf(a), sf(b))))
    }
    fn dagger<O: Lab, A: Lab>(f: &POpen<O, A>) -> Res<POpen<O, A>> {
        let f = build_open(f);
        dec(catch(|| Spider::dagger(&f)))
    }
    fn spider<O: Lab, A: Lab>(s: (&[usize], usize), t: (&[usize], usize), w: &[O], via_trait: bool) -> Res<Option<POpen<O, A>>> {
        let (s, t) = (ff(s.0, s.1), ff(t.0, t.1));
        if via_trait {
            dec_opt(catch(|| <SOpen<O, A> as Spider<K>>::spider(s, t, sf(w))))
        } else {
            dec_opt(catch(|| SOpen::<O, A>::spider(s, t, sf(w))))
        }
    }
    fn half_spider<O: Lab, A: Lab>(s: (&[usize], usize), w: &[O]) -> Res<Option<POpen<O, A>>> {
        let s = ff(s.0, s.1);
        dec_opt(catch(|| <SOpen<O, A> as Spider<K>>::half_spider(s, sf(w))))
    }
    fn is_discrete<O: Lab, A: Lab>(f: &POpen<O, A>) -> Res<bool> {
        let f = build_open(f);
        pan(catch(|| f.h.is_discrete()))
    }
    fn source_target<O: Lab, A: Lab>(f: &POpen<O, A>) -> Res<(Vec<O>, Vec<O>)> {
        let f = build_open(f);
        pan(catch(|| (f.source().0 .0, f.target().0 .0)))
    }
    fn singleton<O: Lab, A: Lab>(x: A, a: &[O], b: &[O]) -> Res<POpen<O, A>> {
        dec(catch(|| SOpen::<O, A>::singleton(x, sf(a), sf(b))))
    }
    fn tensor_operations<O: Lab, A: Lab>(ops: &[(A, Vec<O>, Vec<O>)]) -> Res<POpen<O, A>> {
        let x: Vec<A> = ops.iter().map(|o| o.0.clone()).collect();
        let a: Vec<Vec<O>> = ops.iter().map(|o| o.1.clone()).collect();
        let b: Vec<Vec<O>> = ops.iter().map(|o| o.2.clone()).collect();
        dec(catch(|| {
            let o = Operations::new(sf(&x), seg_sf(&a), seg_sf(&b)).expect("LIBRARY: Operations::new rejected a well-formed batch");
            SOpen::<O, A>::tensor_operations(o)
        }))
    }
    fn coequalize_vertices<O: Lab, A: Lab>(h: &POpen<O, A>, q: (&[usize], usize)) -> Res<Option<POpen<O, A>>> {
        let h = build_hyper(h);
        let q = ff(q.0, q.1);
        match catch(|| h.coequalize_vertices(&q)) {
            Err(p) => Err(Fail::Panic(p)),
            Ok(None) => Ok(None),
            Ok(Some(h2)) => decode_hyper(&h2).map(Some).map_err(Fail::Malformed),
        }
    }
    fn validate_roundtrip<O: Lab, A: Lab>(f: &POpen<O, A>) -> Res<bool> {
        let f = build_open(f);
        // a clone is the same data and validates as well
        pan(catch(|| {
            let g = f.clone();
            let same = g.s == f.s && g.t == f.t && g.h.s == f.h.s && g.h.t == f.h.t && g.h.w.0 .0 == f.h.w.0 .0 && g.h.x.0 .0 == f.h.x.0 .0;
            same && g.validate().is_ok() && f.validate().is_ok()
        }))
    }

    fn layer<O: Lab, A: Lab>(f: &POpen<O, A>) -> Res<(Vec<usize>, Vec<usize>)> {
        let f = build_open(f);
        match catch(|| strict::layer::layer(&f)) {
            Err(p) => Err(Fail::Panic(p)),
            Ok((order, unv)) => {
                let o = decode_ff(&order, "layer order").map_err(Fail::Malformed)?;
                Ok((o, unv.0.clone()))
            }
        }
    }
    fn layered_operations<O: Lab, A: Lab>(f: &POpen<O, A>) -> Res<(Vec<Vec<usize>>, Vec<usize>)> {
        let f = build_open(f);
        match catch(|| strict::layer::layered_operations(&f)) {
            Err(p) => Err(Fail::Panic(p)),
            Ok((groups, unv)) => Ok((groups.into_iter().map(|g| g.0).collect(), unv.0)),
        }
    }
    fn hook_converse(lists: &[Vec<usize>], codomain: usize) -> Res<Vec<Vec<usize>>> {
        let r = seg(lists, codomain);
        match catch(|| strict::verif_hooks::converse(&r)) {
            Err(p) => Err(Fail::Panic(p)),
            Ok(c) => decode_seg(&c, "converse").map_err(Fail::Malformed),
        }
    }
    fn hook_operation_adjacency<O: Lab, A: Lab>(f: &POpen<O, A>) -> Res<Vec<Vec<usize>>> {
        let h = build_hyper(f);
        match catch(|| strict::verif_hooks::operation_adjacency(&h)) {
            Err(p) => Err(Fail::Panic(p)),
            Ok(c) => decode_seg(&c, "operation_adjacency").map_err(Fail::Malformed),
        }
    }
    fn hook_node_adjacency<O: Lab, A: Lab>(f: &POpen<O, A>) -> Res<Vec<Vec<usize>>> {
        let h = build_hyper(f);
        match catch(|| strict::verif_hooks::node_adjacency(&h)) {
            Err(p) => Err(Fail::Panic(p)),
            Ok(c) => decode_seg(&c, "node_adjacency").map_err(Fail::Malformed),
        }
    }
    fn hook_indegree(adj: &[Vec<usize>]) -> Res<Vec<usize>> {
        let a = seg(adj, adj.len());
        match catch(|| strict::verif_hooks::indegree(&a)) {
            Err(p) => Err(Fail::Panic(p)),
            Ok(c) => decode_ff(&c, "indegree").map_err(Fail::Malformed),
        }
    }
    fn hook_kahn(adj: &[Vec<usize>]) -> Res<(Vec<usize>, Vec<usize>)> {
        let a = seg(adj, adj.len());
        match catch(|| strict::verif_hooks::kahn(&a)) {
            Err(p) => Err(Fail::Panic(p)),
            Ok((o, u)) => Ok((o.0, u.0)),
        }
    }
    fn is_acyclic<O: Lab, A: Lab>(f: &POpen<O, A>, via_open: bool) -> Res<bool> {
        let f = build_open(f);
        pan(catch(|| if via_open { f.is_acyclic() } else { f.h.is_acyclic() }))
    }
    fn is_monogamous<O: Lab, A: Lab>(f: &POpen<O, A>) -> Res<bool> {
        let f = build_open(f);
        pan(catch(|| f.is_monogamous()))
    }
    fn degrees<O: Lab, A: Lab>(f: &POpen<O, A>, node: usize) -> Res<(usize, usize)> {
        let h = build_hyper(f);
        pan(catch(|| (h.in_degree(node), h.out_degree(node))))
    }
    fn eval<O: Lab, A: Lab>(f: &POpen<O, A>, inputs: &[u64], interp: &(dyn Fn(&A, &[u64]) -> Vec<u64> + Sync)) -> Res<(Option<Vec<u64>>, Vec<(A, Vec<u64>)>)> {
        let f = build_open(f);
        let log = std::cell::RefCell::new(Vec::new());
        let r = catch(|| {
            strict::eval::eval(&f, Arr(inputs.to_vec()), |labels: SF<A>, args: IC<SF<u64>>| {
                let args = decode_seg_sf(&args, "apply arguments").expect("LIBRARY: arguments handed to the evaluator callback are malformed");
                let labels: Vec<A> = labels.0 .0.clone();
                assert_eq!(labels.len(), args.len(), "LIBRARY: evaluator callback got a different number of labels and argument lists");
                let mut outs = vec![];
                for (l, a) in labels.iter().zip(args.iter()) {
                    log.borrow_mut().push((l.clone(), a.clone()));
                    outs.push(interp(l, a));
                }
                seg_sf(&outs)
            })
        });
        match r {
            Err(p) => Err(Fail::Panic(p)),
            Ok(o) => Ok((o.map(|a| a.0), log.into_inner())),
        }
    }
    fn arrow_new<O: Lab, A: Lab>(g: &POpen<O, A>, h: &POpen<O, A>, w: (&[usize], usize), x: (&[usize], usize)) -> Res<Result<(), String>> {
        let (g, h) = (build_hyper(g), build_hyper(h));
        let (w, x) = (ff(w.0, w.1), ff(x.0, x.1));
        pan(catch(|| strict::hypergraph::arrow::HypergraphArrow::new(g, h, w, x).map(|_| ()).map_err(|e| format!("{:?}", e))))
    }
    fn arrow_mono_convex<O: Lab, A: Lab>(g: &POpen<O, A>, h: &POpen<O, A>, w: (&[usize], usize), x: (&[usize], usize)) -> Res<(bool, bool)> {
        let a = strict::hypergraph::arrow::HypergraphArrow { source: build_hyper(g), target: build_hyper(h), w: ff(w.0, w.1), x: ff(x.0, x.1) };
        pan(catch(|| (a.is_monomorphism(), a.is_convex_subgraph())))
    }

    fn functor_apply(f: &POpen<u8, u8>, tf: crate::tf::TF) -> Res<POpen<u8, u8>> {
        let f = build_open(f);
        let fun = TestFunctor(tf);
        dec(catch(|| strict::functor::Functor::map_arrow(&fun, &f)))
    }
    fn identity_functor(f: &POpen<u8, u8>) -> Res<POpen<u8, u8>> {
        let f = build_open(f);
        dec(catch(|| <strict::functor::identity::Identity as strict::functor::Functor<K, u8, u8, u8, u8>>::map_arrow(&strict::functor::identity::Identity, &f)))
    }

    fn optic_apply(f: &POpen<u8, u8>, o: std::sync::Arc<dyn crate::tf::PlainOptic>) -> Res<(POpen<u8, u8>, POpen<u8, u8>)> {
        let f = build_open(f);
        let r = catch(|| {
            let oc = o.clone();
            let optic = strict::functor::optic::Optic::new(
                HalfOptic { o: o.clone(), forward: true },
                HalfOptic { o: o.clone(), forward: false },
                Box::new(move |ops: &Operations<K, u8, u8>| seg_sf(&decode_operations(ops).iter().map(|(x, _, _)| oc.residual(*x)).collect::<Vec<_>>())),
            );
            let c = strict::functor::Functor::map_arrow(&optic, &f);
            let d = optic.adapt(&c, &f.source(), &f.target());
            (c, d)
        });
        match r {
            Err(p) => Err(Fail::Panic(p)),
            Ok((c, d)) => Ok((decode_open(&c).map_err(Fail::Malformed)?, decode_open(&d).map_err(Fail::Malformed)?)),
        }
    }

    fn hypergraph_level<O: Lab, A: Lab>(f: &POpen<O, A>, g: &POpen<O, A>) -> Res<(POpen<O, A>, POpen<O, A>, POpen<O, A>, (POpen<O, A>, bool))> {
        let (hf, hg) = (build_hyper(f), build_hyper(g));
        let r = catch(|| {
            let a = hf.coproduct(&hg);
            let b = &hf + &hg;
            let e = SHyper::<O, A>::empty();
            let d = SHyper::<O, A>::discrete(sf(&f.nodes));
            let disc = d.is_discrete();
            (a, b, e, d, disc)
        });
        match r {
            Err(p) => Err(Fail::Panic(p)),
            Ok((a, b, e, d, disc)) => Ok((
                decode_hyper(&a).map_err(Fail::Malformed)?,
                decode_hyper(&b).map_err(Fail::Malformed)?,
                decode_hyper(&e).map_err(Fail::Malformed)?,
                (decode_hyper(&d).map_err(Fail::Malformed)?, disc),
            )),
        }
    }
    fn source_target_trait<O: Lab, A: Lab>(f: &POpen<O, A>) -> Res<(Vec<O>, Vec<O>)> {
        let f = build_open(f);
        pan(catch(|| (<SOpen<O, A> as Arrow>::source(&f).0 .0, <SOpen<O, A> as Arrow>::target(&f).0 .0)))
    }
}

/// the forward or the reverse half of a plain optic as a strict functor on this backend
pub struct HalfOptic {
    pub o: std::sync::Arc<dyn crate::tf::PlainOptic>,
    pub forward: bool,
}

impl strict::functor::Functor<K, u8, u8, u8, u8> for HalfOptic {
    fn map_object(&self, a: &SF<u8>) -> IC<SF<u8>> {
        seg_sf(&a.0 .0.iter().map(|&l| if self.forward { self.o.fobj(l) } else { self.o.robj(l) }).collect::<Vec<_>>())
    }
    fn map_operations(&self, ops: Operations<K, u8, u8>) -> SOpen<u8, u8> {
        let mut acc = POpen::<u8, u8>::empty();
        for (x, a, b) in decode_operations(&ops) {
            acc = acc.tensor(&if self.forward { self.o.fwd(x, &a, &b) } else { self.o.rev(x, &a, &b) });
        }
        build_open(&acc)
    }
    fn map_arrow(&self, f: &SOpen<u8, u8>) -> SOpen<u8, u8> {
        strict::functor::define_map_arrow(self, f)
    }
}

/// a test functor as an implementation of the strict `Functor` trait on this backend
pub struct TestFunctor(pub crate::tf::TF);

pub fn decode_operations<O: Lab, A: Lab>(ops: &Operations<K, O, A>) -> Vec<(A, Vec<O>, Vec<O>)> {
    let a = decode_seg_sf(&ops.a, "operations.a").expect("LIBRARY: operation batch handed to the functor is malformed (a)");
    let b = decode_seg_sf(&ops.b, "operations.b").expect("LIBRARY: operation batch handed to the functor is malformed (b)");
    let x: Vec<A> = ops.x.0 .0.clone();
    assert!(x.len() == a.len() && x.len() == b.len(), "LIBRARY: operation batch handed to the functor has unequal counts");
    x.into_iter().zip(a.into_iter().zip(b.into_iter())).map(|(x, (a, b))| (x, a, b)).collect()
}

impl strict::functor::Functor<K, u8, u8, u8, u8> for TestFunctor {
    fn map_object(&self, a: &SF<u8>) -> IC<SF<u8>> {
        seg_sf(&a.0 .0.iter().map(|&l| self.0.obj(l)).collect::<Vec<_>>())
    }
    fn map_operations(&self, ops: Operations<K, u8, u8>) -> SOpen<u8, u8> {
        let mut acc = POpen::<u8, u8>::empty();
        for (x, a, b) in decode_operations(&ops) {
            acc = acc.tensor(&self.0.image_strict(x, &a, &b));
        }
        build_open(&acc)
    }
    fn map_arrow(&self, f: &SOpen<u8, u8>) -> SOpen<u8, u8> {
        strict::functor::define_map_arrow(self, f)
    }
}
