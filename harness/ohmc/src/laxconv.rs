//! Adapter for the imperative (`lax`) representation: plain model in, plain model out.
use ohmc_core::plain::*;
use open_hypergraphs::lax;
use open_hypergraphs::lax::{EdgeId, Hyperedge, NodeId};

pub type LOpen<O, A> = lax::OpenHypergraph<O, A>;
pub type LHyper<O, A> = lax::Hypergraph<O, A>;

pub fn nid(v: &[usize]) -> Vec<NodeId> {
    v.iter().map(|&i| NodeId(i)).collect()
}
pub fn un_nid(v: &[NodeId]) -> Vec<usize> {
    v.iter().map(|i| i.0).collect()
}
pub fn eid(v: &[usize]) -> Vec<EdgeId> {
    v.iter().map(|&i| EdgeId(i)).collect()
}

pub fn build_lax_hyper<O: Lab, A: Lab>(p: &PLax<O, A>) -> LHyper<O, A> {
    lax::Hypergraph {
        nodes: p.open.nodes.clone(),
        edges: p.open.edges.iter().map(|e| e.label.clone()).collect(),
        adjacency: p.open.edges.iter().map(|e| Hyperedge { sources: nid(&e.src), targets: nid(&e.tgt) }).collect(),
        quotient: (p.quot.iter().map(|q| NodeId(q.0)).collect(), p.quot.iter().map(|q| NodeId(q.1)).collect()),
    }
}

pub fn build_lax<O: Lab, A: Lab>(p: &PLax<O, A>) -> LOpen<O, A> {
    lax::OpenHypergraph { sources: nid(&p.open.s), targets: nid(&p.open.t), hypergraph: build_lax_hyper(p) }
}

/// Decode with a deep well-formedness check (counts agree, every reference in range).
pub fn decode_lax_hyper<O: Lab, A: Lab>(h: &LHyper<O, A>) -> Result<PLax<O, A>, String> {
    let n = h.nodes.len();
    if h.edges.len() != h.adjacency.len() {
        return Err(format!("{} edge labels but {} adjacency entries", h.edges.len(), h.adjacency.len()));
    }
    if h.quotient.0.len() != h.quotient.1.len() {
        return Err(format!("quotient lists of unequal length {} / {}", h.quotient.0.len(), h.quotient.1.len()));
    }
    let mut edges = vec![];
    for (l, adj) in h.edges.iter().zip(h.adjacency.iter()) {
        let (src, tgt) = (un_nid(&adj.sources), un_nid(&adj.targets));
        if let Some(v) = src.iter().chain(tgt.iter()).find(|&&v| v >= n) {
            return Err(format!("hyperedge refers to node {} but there are {} nodes", v, n));
        }
        edges.push(PEdge { label: l.clone(), src, tgt });
    }
    let quot: Vec<(usize, usize)> = h.quotient.0.iter().zip(h.quotient.1.iter()).map(|(a, b)| (a.0, b.0)).collect();
    if let Some(q) = quot.iter().find(|q| q.0 >= n || q.1 >= n) {
        return Err(format!("pending unification {:?} refers to a node >= {}", q, n));
    }
    Ok(PLax { open: POpen { nodes: h.nodes.clone(), edges, s: vec![], t: vec![] }, quot })
}

pub fn decode_lax<O: Lab, A: Lab>(f: &LOpen<O, A>) -> Result<PLax<O, A>, String> {
    let mut p = decode_lax_hyper(&f.hypergraph)?;
    let n = p.open.nodes.len();
    p.open.s = un_nid(&f.sources);
    p.open.t = un_nid(&f.targets);
    if let Some(v) = p.open.s.iter().chain(p.open.t.iter()).find(|&&v| v >= n) {
        return Err(format!("interface refers to node {} but there are {} nodes", v, n));
    }
    Ok(p)
}
