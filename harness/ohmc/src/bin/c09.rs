use ohmc::props::c09::*;
use ohmc::props::laxbfs::*;
use ohmc_core::explore::*;
use ohmc_core::plain::*;
use ohmc_core::uni::*;

fn main() {
    let mut ctx = Ctx::from_args("C09");
    let quick = ctx.quick();
    // inputs: deep identification chains without hyperedges
    let deep = Spec { n_min: 0, n_max: 4, e_min: 0, e_max: 0, ks: 0, kt: 0, lw: 2, lx: 1, a: 1, b: 1, q: 3 };
    let u = deep.universe();
    ctx.run_slice(Slice::new(format!("q-deep[{}]", deep.name()), u.count(), |i, loc| check_input(&u.get(i), loc)));
    // the same inputs with labels whose equality ignores a tag: a failed quotient must leave the tags where they were
    ctx.run_slice(Slice::new(format!("q-deep-tagged-labels[{}]", deep.name()), u.count(), |i, loc| check_tagged(&u.get(i), loc)));
    // exactly five nodes, two keys, up to three pairs (thorough: four), tags all different: a failed quotient after
    // earlier merges and several class starts must put every label back where it was
    let five = Spec { n_min: 5, n_max: 5, e_min: 0, e_max: 0, ks: 0, kt: 0, lw: 2, lx: 1, a: 0, b: 0, q: if quick { 3 } else { 4 } };
    let fu5 = five.universe();
    ctx.run_slice(Slice::new(format!("q-five-nodes-tagged-labels[{}]", five.name()), fu5.count(), |i, loc| check_tagged(&fu5.get(i), loc)));
    let edges = if quick { Spec::lax(3, 1, 2, 2, 1, 1, 1, 2) } else { Spec::lax(3, 1, 2, 2, 1, 2, 2, 3) };
    let ue = edges.universe();
    ctx.run_slice(Slice::new(format!("q-edges[{}]", edges.name()), ue.count(), |i, loc| check_input(&ue.get(i), loc)));
    // large inputs (sizes 33 .. 129): every shape family with long patterns of pending pairs (a chain over all
    // nodes, every other node, a star, deep binomial merge orders, all pairs repeated, one conflicting label)
    let sizes: Vec<usize> = if quick { vec![33, 65] } else { vec![33, 64, 65, 129] };
    let big = ohmc::props::structured::shapes_at(&sizes, false);
    ctx.run_slice(Slice::new(format!("q-large[sizes {:?}: {} diagrams x 8 pair patterns]", sizes, big.len()), big.len() as u64 * 8, |i, loc| {
        let f = &big[(i / 8) as usize].1;
        let n = f.nodes.len();
        let mut open = f.clone();
        let quot: Vec<(usize, usize)> = match i % 8 {
            0 => (1..n).map(|v| (v - 1, v)).collect(),
            1 => (2..n).step_by(2).map(|v| (v, v - 2)).collect(),
            2 => (1..n).rev().map(|v| (0, v)).collect(),
            3 => {
                // binomial merge order: blocks of 1, 2, 4, ... are merged pairwise through their last elements
                let mut q = vec![];
                let mut w = 1;
                while w < n {
                    let mut b = 0;
                    while b + w < n {
                        q.push(((b + 2 * w).min(n) - 1, b + w - 1));
                        b += 2 * w;
                    }
                    w *= 2;
                }
                q
            }
            4 => (1..n).map(|v| (v - 1, v)).chain((1..n).map(|v| (v, v - 1))).collect(),
            5 => (0..n).map(|v| (v, v)).collect(),
            6 => {
                // one node of another label in the middle of a chain: the quotient must fail and change nothing
                open.nodes[n / 2] = 1;
                (1..n).map(|v| (v - 1, v)).collect()
            }
            _ => {
                // the other label off every chain: succeeds
                open.nodes[n - 1] = 1;
                (1..n - 1).map(|v| (v - 1, v)).collect()
            }
        };
        check_input(&PLax { open, quot }, loc)
    }));
    // as many pending pairs as nodes, no bystander node needed: every list of 4 pairs on exactly 4 nodes (thorough: 5 on
    // 4 nodes, and 5 on 5 equally labelled nodes) - redundant pairs before a bridging one, trees joined through inner nodes
    let full: Vec<Spec> = if quick {
        vec![Spec { n_min: 4, n_max: 4, e_min: 0, e_max: 0, ks: 0, kt: 0, lw: 2, lx: 1, a: 0, b: 0, q: 4 }]
    } else {
        vec![
            Spec { n_min: 4, n_max: 4, e_min: 0, e_max: 0, ks: 0, kt: 0, lw: 2, lx: 1, a: 0, b: 0, q: 5 },
            Spec { n_min: 5, n_max: 5, e_min: 0, e_max: 0, ks: 0, kt: 0, lw: 1, lx: 1, a: 0, b: 0, q: 5 },
        ]
    };
    for fs in full {
        let fu = fs.universe();
        ctx.run_slice(Slice::new(format!("q-many-pairs[{}]", fs.name()), fu.count(), move |i, loc| check_input(&fu.get(i), loc)));
    }
    // long unify histories on one diagram: a base list of <= 2 (thorough: 3) pairs on 5 (6) equally labelled nodes is
    // issued through the real unify() again and again - blocked (each pair 20 times) and alternating - up to 40 (60)
    // pending pairs, far more than there are nodes; every single step is judged against the list model (the pending list
    // grows by exactly that pair), then quotient() must merge exactly the components of the recorded pairs
    {
        let ls = if quick {
            Spec { n_min: 5, n_max: 5, e_min: 0, e_max: 0, ks: 0, kt: 0, lw: 1, lx: 1, a: 0, b: 0, q: 2 }
        } else {
            Spec { n_min: 6, n_max: 6, e_min: 0, e_max: 0, ks: 0, kt: 0, lw: 1, lx: 1, a: 0, b: 0, q: 3 }
        };
        let lu = ls.universe();
        let total = if quick { 40usize } else { 60 };
        ctx.run_slice(Slice::new(format!("q-long-unify-histories[{} x blocked/alternating, {} unify calls then quotient]", ls.name(), total), lu.count() * 2, move |i, loc| {
            let base = lu.get(i / 2);
            let pairs = base.quot.clone();
            if pairs.is_empty() {
                loc.outcome(&("empty", 0usize));
                return;
            }
            let b = Bounds { nodes: 99, edges: 99, pairs: 999, iface: 99, arity_s: 99, arity_t: 99, labels: 2, del_ids: 0, hyper_only: false, alphabet: Alphabet::Quotient };
            let mut s = PLax { open: base.open.clone(), quot: vec![] };
            let per = total / pairs.len();
            for j in 0..total {
                let (v, w) = if i % 2 == 0 { pairs[(j / per).min(pairs.len() - 1)] } else { pairs[j % pairs.len()] };
                loc.trans(1);
                let o = checked_step(&b, &s, &Act::Unify(v, w));
                if let Some((k, why)) = o.violation {
                    loc.violation(&format!("long-history-{}", k), serde_json::json!({"nodes": s.open.nodes.len(), "base_pairs": pairs, "pattern": if i % 2 == 0 { "blocked" } else { "alternating" }, "unify_calls_so_far": j, "call": [v, w], "why": why}));
                    return;
                }
                match o.next {
                    Some(n) => s = n,
                    None => {
                        loc.violation("long-history-unify-refused", serde_json::json!({"base_pairs": pairs, "unify_calls_so_far": j, "call": [v, w]}));
                        return;
                    }
                }
            }
            loc.trans(1);
            let o = checked_step(&b, &s, &Act::Quotient);
            if let Some((k, why)) = o.violation {
                loc.violation(&format!("long-history-{}", k), serde_json::json!({"nodes": s.open.nodes.len(), "base_pairs": pairs, "pattern": if i % 2 == 0 { "blocked" } else { "alternating" }, "pending_pairs": s.quot.len(), "why": why}));
            }
            let (_, k) = classes(s.open.nodes.len(), &s.quot);
            if k < s.open.nodes.len() {
                loc.nontrivial();
            }
            loc.outcome(&(s.open.nodes.len(), k, s.quot.len(), i % 2));
            loc.sample(|| serde_json::json!({"base_pairs": pairs, "pending_pairs_before_quotient": s.quot.len(), "classes": k}));
        }));
    }
    // un-quotiented presentations of strict diagrams: as many pending pairs as repeated node occurrences
    let xs = if quick { Spec::open(3, 1, 2, 2, 2, 2, 2) } else { Spec::open(3, 2, 2, 1, 2, 2, 2) };
    let xu = xs.universe();
    ctx.run_slice(Slice::new(format!("q-exploded[{}]", xs.name()), xu.count(), |i, loc| check_input(&PLax::exploded(&xu.get_open(i)), loc)));
    // histories: unify / quotient / new_node interleaved, from the empty diagram and from a diagram with a hyperedge and interfaces
    let b = Bounds { nodes: if quick { 4 } else { 5 }, edges: 1, pairs: 3, iface: 2, arity_s: 2, arity_t: 2, labels: 2, del_ids: 0, hyper_only: false, alphabet: Alphabet::Quotient };
    let start = PLax { open: POpen { nodes: vec![0, 0, 1], edges: vec![PEdge { label: 0, src: vec![0, 1], tgt: vec![2] }], s: vec![1, 0], t: vec![2, 0] }, quot: vec![] };
    let init = vec![PLax::strict(POpen::empty()), start];
    run_bfs(&mut ctx, "histories-bfs[unify,quotient,new_node; <=3 nodes]", b.clone(), init, if quick { 8 } else { 12 }, 8_000_000, false, quick);
    let bl = Bounds { nodes: 3, pairs: 3, ..b.clone() };
    run_live(&mut ctx, "histories-live[unify,quotient,new_node]", bl, if quick { 5 } else { 6 });
    let meta = Meta {
        rule: "inputs: every lax (open) hypergraph of the listed universes with every list of pending unification pairs (self pairs, repeats, chains, pairs across label boundaries), quotiented through lax::OpenHypergraph::quotient and lax::Hypergraph::quotient, then quotiented again; histories: breadth-first search over all interleavings of unify(v,w), quotient() and new_node(l) from the empty diagram and from a diagram with a hyperedge and interfaces, with exact-state deduplication, plus a depth-first walk of all histories on one live object; non-trivial = at least one pair merges two nodes".into(),
        bounds: "q-deep: <=4 nodes, 2 labels, <=3 pairs, interfaces <=1; q-edges: <=3 nodes, <=1 hyperedge of arity <=2, <=2 (quick) / 3 pairs; histories: <=4 (quick) / 5 nodes, <=3 pending pairs, BFS depth 8 (quick) / 12, live histories of length 5 / 6 on <=3 nodes".into(),
        assumptions: vec!["the numbering of the merged nodes is the library's choice (fibres are compared as a partition, the diagram against its image under the returned map)".into(), "nothing is demanded of the map returned by a failed quotient".into()],
        explanation: "every transition is the real quotient()/unify()/new_node() on a real object; on failure every public field must equal its value before the call".into(),
    };
    std::process::exit(ctx.finish(meta));
}
