use ohmc::onvec::B;
use ohmc::props::c12::*;
use ohmc::tf::*;
use ohmc_core::explore::*;
use ohmc_core::uni::*;

fn main() {
    let mut ctx = Ctx::from_args("C12");
    let quick = ctx.quick();
    let tfs = all_tfs(2, &[0, 1, 2, 3, 5, 6, 7, 8]);
    let tfs_lax = all_tfs(2, &[0, 1, 2, 3, 4, 5, 6, 7, 8]);
    let spec = if quick { Spec::open(2, 1, 2, 2, 2, 1, 1) } else { Spec::open(2, 2, 2, 2, 2, 1, 1) };
    let u = spec.universe();
    ctx.run_slice(Slice::new(format!("strict-trait[{} x {} functors]", spec.name(), tfs.len()), u.count(), |i, loc| {
        let f = u.get_open(i);
        for tf in &tfs {
            loc.more_cases(1);
            check_strict::<B>(&f, *tf, loc);
        }
        loc.sample(|| serde_json::json!({"f": f, "functors": tfs.len()}));
    }));
    // exactly three nodes: complete universes (quick: unary hyperedges, one hyperedge label; thorough: <=1 hyperedge with
    // everything, 2 hyperedges with one label per sort, 2 unary hyperedges with all labels)
    let specs3 = if quick {
        vec![Spec { n_min: 3, ..Spec::open(3, 2, 1, 2, 1, 1, 1) }]
    } else {
        let b = Spec { n_min: 3, ..Spec::open(3, 2, 2, 2, 2, 1, 1) };
        vec![Spec { e_max: 1, ..b.clone() }, Spec { e_min: 2, lw: 1, lx: 1, ..b.clone() }, Spec { e_min: 2, ks: 1, kt: 1, ..b.clone() }, Spec { e_min: 2, lx: 1, ..b }]
    };
    for spec3 in specs3 {
        let u3 = spec3.universe();
        let tfs = &tfs;
        ctx.run_slice(Slice::new(format!("strict-trait-3-nodes[{} x {} functors]", spec3.name(), tfs.len()), u3.count(), move |i, loc| {
            let f = u3.get_open(i);
            for tf in tfs {
                loc.more_cases(1);
                check_strict::<B>(&f, *tf, loc);
            }
        }));
    }
    ctx.run_slice(Slice::new(format!("lax-trait-via-dyn-functor[{} x {} functors]", spec.name(), tfs_lax.len()), u.count(), |i, loc| {
        let f = u.get_open(i);
        for tf in &tfs_lax {
            loc.more_cases(1);
            check_dyn(&f, *tf, loc);
        }
    }));
    // a third node label on four nodes; three hyperedges: the strict trait, the dyn-functor path
    let tf3: Vec<TF> = vec![TF { n: [1, 1, 1], recipe: 0 }, TF { n: [2, 0, 1], recipe: 0 }, TF { n: [1, 2, 0], recipe: 1 }, TF { n: [0, 1, 2], recipe: 2 }];
    let s4 = Spec { n_min: 4, n_max: 4, e_min: 0, e_max: 1, ks: 1, kt: 1, lw: 3, lx: 1, a: 1, b: 1, q: 0 };
    // every triple of image sizes in {0,1,2}^3 (single-operation images) next to the mixed recipes
    let mut tf3 = tf3;
    for a in 0..3usize {
        for b in 0..3usize {
            for c in 0..3usize {
                tf3.push(TF { n: [a, b, c], recipe: 0 });
            }
        }
    }
    let u4 = s4.universe();
    ctx.run_slice(Slice::new(format!("three-labels-four-nodes[{} x {} functors, strict and dyn]", s4.name(), tf3.len()), u4.count(), |i, loc| {
        let f = u4.get_open(i);
        for tf in &tf3 {
            loc.more_cases(2);
            check_strict::<B>(&f, *tf, loc);
            check_dyn(&f, *tf, loc);
        }
    }));
    let s3e = Spec { n_min: 1, n_max: 2, e_min: 3, e_max: 3, ks: 1, kt: 1, lw: 1, lx: 2, a: 1, b: 1, q: 0 };
    let u3e = s3e.universe();
    ctx.run_slice(Slice::new(format!("three-hyperedges[{} x {} functors, strict and dyn]", s3e.name(), tf3.len()), u3e.count(), |i, loc| {
        let f = u3e.get_open(i);
        for tf in &tf3 {
            loc.more_cases(2);
            check_strict::<B>(&f, *tf, loc);
            check_dyn(&f, *tf, loc);
        }
    }));
    ctx.run_slice(Slice::new(format!("strict-trait-reading-Operations::iter[{} x {} functors]", spec.name(), tfs.len()), u.count(), |i, loc| {
        let f = u.get_open(i);
        for tf in &tfs {
            loc.more_cases(1);
            check_iter_functor(&f, *tf, loc);
        }
    }));
    // lax diagrams with pending unifications
    let lps = if quick { Spec::lax(2, 1, 1, 2, 1, 1, 1, 1) } else { Spec::lax(3, 1, 2, 2, 1, 1, 1, 2) };
    let lpu = lps.universe();
    let tfp: Vec<TF> = vec![TF { n: [1, 1, 1], recipe: 0 }, TF { n: [2, 0, 1], recipe: 1 }, TF { n: [1, 2, 1], recipe: 2 }];
    ctx.run_slice(Slice::new(format!("pending-unifications[{} x {} functors]", lps.name(), tfp.len()), lpu.count(), |i, loc| {
        let l = lpu.get(i);
        if !l.quot.is_empty() {
            for tf in &tfp {
                loc.more_cases(1);
                check_pending::<B>(&l, *tf, loc);
            }
        }
    }));
    // the same on un-quotiented presentations of strict diagrams: every node occurrence a node of its own, chained by
    // pending unifications (the shape of every raw result of lax composition)
    let xs = if quick { Spec::open(2, 2, 2, 2, 1, 1, 1) } else { Spec::open(3, 2, 2, 2, 1, 1, 1) };
    let xu = xs.universe();
    ctx.run_slice(Slice::new(format!("pending-unifications-exploded[{} x {} functors]", xs.name(), tfp.len()), xu.count(), |i, loc| {
        let l = ohmc_core::plain::PLax::exploded(&xu.get_open(i));
        for tf in &tfp {
            loc.more_cases(1);
            check_pending::<B>(&l, *tf, loc);
        }
    }));
    let specsid = if quick { vec![Spec::open(3, 1, 2, 2, 2, 2, 2)] } else { Spec::family_3x2(2, 0, true) };
    for specid in specsid {
        let uid = specid.universe();
        ctx.run_slice(Slice::new(format!("identity-functors[{}]", specid.name()), uid.count(), |i, loc| check_identity_functors::<B>(&uid.get_open(i), loc)));
    }
    // functoriality on pairs
    let specp = if quick { Spec::open(2, 1, 1, 2, 1, 1, 1) } else { Spec::open(2, 1, 1, 2, 2, 1, 1) };
    let up = specp.universe().all_open();
    let np = up.len() as u64;
    let tfs_f: Vec<TF> = if quick { vec![TF { n: [2, 0, 1], recipe: 0 }, TF { n: [1, 2, 1], recipe: 1 }, TF { n: [2, 1, 1], recipe: 2 }] } else { tfs.iter().cloned().step_by(3).collect() };
    ctx.run_slice(Slice::new(format!("functoriality[{}^2 x {} functors]", specp.name(), tfs_f.len()), np * np, |i, loc| {
        for tf in &tfs_f {
            loc.more_cases(1);
            check_functoriality::<B>(&up[(i / np) as usize], &up[(i % np) as usize], *tf, loc);
        }
    }));
    let objs: Vec<Vec<u8>> = lists(2, 2).into_iter().map(|l| l.into_iter().map(|x| x as u8).collect()).collect();
    let no = objs.len() as u64;
    ctx.run_slice(Slice::new("functor-preserves-identity-and-symmetry", no * no * tfs.len() as u64, |i, loc| {
        let tf = tfs[(i / (no * no)) as usize];
        check_functor_units::<B>(&objs[((i / no) % no) as usize], &objs[(i % no) as usize], tf, loc)
    }));
    // larger inputs: structured diagrams with a few functors (strict trait and dyn path)
    let stl: Vec<_> = ohmc::props::structured::shapes(3).into_iter().map(|x| x.1).collect();
    let tfl: Vec<TF> = vec![TF { n: [1, 1, 1], recipe: 0 }, TF { n: [2, 0, 1], recipe: 1 }, TF { n: [0, 2, 1], recipe: 2 }];
    ctx.run_slice(Slice::new(format!("structured[{} diagrams x {} functors, strict and dyn]", stl.len(), tfl.len()), stl.len() as u64 * tfl.len() as u64, |i, loc| {
        let (f, tf) = (&stl[(i / tfl.len() as u64) as usize], tfl[(i % tfl.len() as u64) as usize]);
        check_strict::<B>(f, tf, loc);
        check_dyn(f, tf, loc);
    }));
    // the same on large diagrams (sizes 33 .. 129)
    let sizes: Vec<usize> = if ctx.quick() { vec![33, 65] } else { vec![33, 64, 65, 129] };
    let big: Vec<_> = ohmc::props::structured::shapes_at(&sizes, false).into_iter().map(|x| x.1).collect();
    ctx.run_slice(Slice::new(format!("structured-large[sizes {:?}: {} diagrams x {} functors, strict and dyn]", sizes, big.len(), tfl.len()), big.len() as u64 * tfl.len() as u64, |i, loc| {
        let (f, tf) = (&big[(i / tfl.len() as u64) as usize], tfl[(i % tfl.len() as u64) as usize]);
        check_strict::<B>(f, tf, loc);
        check_dyn(f, tf, loc);
    }));
    let meta = Meta {
        rule: "36 functors (object map label -> list of length 0, 1 or 2 per label; operation map by recipe: single operation, two-stage composite, spider-only merge, disconnected discard/create; for the lax trait additionally a composite handed over un-quotiented) crossed with every diagram of the universes (non-monogamous, cyclic, isolated nodes, zero-arity operations); strict Functor trait via define_map_arrow and lax trait via dyn_functor::define_map_arrow; result compared up to isomorphism with literal substitution on the plain model; functoriality (composition, tensor, dagger, identity, symmetry) on pairs through the public API; both Identity functors; plus four-node diagrams over a THIRD node label and diagrams with three hyperedges (four functors, strict and dyn path)".into(),
        bounds: "diagrams: <=2 nodes, <=1 (quick) / 2 hyperedges of arity <=2, interfaces <=1, 2+2 labels; 3-node diagrams with <=2 hyperedges (prefix in quick); functoriality on pairs of <=2 nodes / <=1 hyperedge".into(),
        assumptions: vec!["the functor family is finite: object images of length <=2, four/five operation recipes".into()],
        explanation: "explicit enumeration of programs (functors) x inputs (diagrams); every application is the real spider-decomposition code".into(),
    };
    std::process::exit(ctx.finish(meta));
}
