//! Oracle self-tests, run by MANIFEST.setup_cmd: a wrong oracle would either false-alarm or go blind.
use ohmc_core::iso::*;
use ohmc_core::plain::*;
use ohmc_core::uni::*;
use rayon::prelude::*;

fn main() {
    let t0 = std::time::Instant::now();
    // 1. iso == brute force on all pairs of a tiny universe
    let u = Spec::open(2, 1, 2, 2, 2, 1, 1).universe().all_open();
    let n = u.len();
    let (pairs, isos, bad) = (0..n)
        .into_par_iter()
        .map(|i| {
            let mut c = (0u64, 0u64, 0u64);
            for j in 0..n {
                let (a, b) = (&u[i], &u[j]);
                // brute force also has to pin the interfaces: renumber compares s and t too
                let x = iso(a, b);
                let y = iso_brute(a, b);
                c.0 += 1;
                if x {
                    c.1 += 1;
                }
                if x != y {
                    c.2 += 1;
                }
            }
            c
        })
        .reduce(|| (0, 0, 0), |a, b| (a.0 + b.0, a.1 + b.1, a.2 + b.2));
    println!("selftest iso-vs-brute: universe={} pairs={} isomorphic={} disagreements={}", n, pairs, isos, bad);
    let mut fail = bad > 0;
    // 2. iso(x, pi.x) for every renumbering of every x of a universe with 2 edges / 3 nodes
    let u2 = Spec::open(3, 2, 1, 2, 2, 1, 1).universe();
    let cnt = u2.count();
    let bad2: u64 = (0..cnt)
        .into_par_iter()
        .map(|i| {
            let x = u2.get_open(i);
            let mut b = 0;
            for np in all_permutations(x.nodes.len()) {
                for ep in all_permutations(x.edges.len()) {
                    if !iso(&x, &x.renumber(&np, &ep)) {
                        b += 1;
                    }
                }
            }
            b
        })
        .sum();
    println!("selftest iso-renumbering: diagrams={} failures={}", cnt, bad2);
    fail |= bad2 > 0;
    // 3. non-isomorphism is detected: changing one incidence or one interface entry of a diagram
    //    whose nodes are all distinguishable must break isomorphism
    let x: POpen<u8, u8> = POpen { nodes: vec![0, 1, 2], edges: vec![PEdge { label: 0, src: vec![0, 1], tgt: vec![2] }], s: vec![0, 1], t: vec![2] };
    let mut y = x.clone();
    y.edges[0].src = vec![1, 0];
    let mut z = x.clone();
    z.s = vec![1, 0];
    if iso(&x, &y) || iso(&x, &z) || !iso(&x, &x) {
        println!("selftest iso-discriminates: FAILED");
        fail = true;
    }
    // 4. reference gluing: classes() against a union-find-free second formulation (reachability)
    let mut bad3 = 0u64;
    let mut tot3 = 0u64;
    for n in 0..=4usize {
        for ps in lists(n * n, 3) {
            let pairs: Vec<(usize, usize)> = ps.iter().map(|p| (p / n, p % n)).collect();
            let (q, k) = classes(n, &pairs);
            // reachability closure
            let mut r = vec![vec![false; n]; n];
            for i in 0..n {
                r[i][i] = true;
            }
            for &(a, b) in &pairs {
                r[a][b] = true;
                r[b][a] = true;
            }
            for m in 0..n {
                for i in 0..n {
                    for j in 0..n {
                        if r[i][m] && r[m][j] {
                            r[i][j] = true;
                        }
                    }
                }
            }
            tot3 += 1;
            for i in 0..n {
                for j in 0..n {
                    if (q[i] == q[j]) != r[i][j] {
                        bad3 += 1;
                    }
                }
            }
            if !is_dense_surjection(&q, k) {
                bad3 += 1;
            }
        }
    }
    println!("selftest classes-vs-reachability: pair-lists={} failures={}", tot3, bad3);
    fail |= bad3 > 0;
    fail |= !ohmc::selftest_extra();
    println!("selftest done in {:.1}s: {}", t0.elapsed().as_secs_f64(), if fail { "FAILED" } else { "ok" });
    std::process::exit(if fail { 2 } else { 0 });
}
