//! Oracle self-tests, run by MANIFEST.setup_cmd: a wrong oracle would either false-alarm or go blind.
use ohmc_core::iso::*;
use ohmc_core::plain::*;
use ohmc_core::uni::*;
use rayon::prelude::*;

struct Guard(String, std::time::Instant);
impl Drop for Guard {
    fn drop(&mut self) {
        if self.1.elapsed().as_secs_f64() > 0.5 {
            eprintln!("slow iso: {} {:.1}s", self.0, self.1.elapsed().as_secs_f64());
        }
    }
}

fn main() {
    let t0 = std::time::Instant::now();
    // 1. iso == brute force on all pairs of a tiny universe
    let u = Spec::open(2, 1, 2, 2, 2, 1, 1).universe().all_open();
    let n = u.len();
    let (pairs, isos, bad) = (0..n)
        .into_par_iter()
        .map(|i| {
            let mut c = (0u64, 0u64, 0u64);
            for j in 0..n {
                let (a, b) = (&u[i], &u[j]);
                // brute force also has to pin the interfaces: renumber compares s and t too
                let x = iso(a, b);
                let y = iso_brute(a, b);
                let z = iso_refined(a, b);
                c.0 += 1;
                if x {
                    c.1 += 1;
                }
                if x != y || z != y {
                    c.2 += 1;
                }
            }
            c
        })
        .reduce(|| (0, 0, 0), |a, b| (a.0 + b.0, a.1 + b.1, a.2 + b.2));
    println!("selftest iso-vs-brute: universe={} pairs={} isomorphic={} disagreements={}", n, pairs, isos, bad);
    let mut fail = bad > 0;
    // 2. iso(x, pi.x) for every renumbering of every x of a universe with 2 edges / 3 nodes
    let u2 = Spec::open(3, 2, 1, 2, 2, 1, 1).universe();
    let cnt = u2.count();
    let bad2: u64 = (0..cnt)
        .into_par_iter()
        .map(|i| {
            let x = u2.get_open(i);
            let mut b = 0;
            for np in all_permutations(x.nodes.len()) {
                for ep in all_permutations(x.edges.len()) {
                    let y = x.renumber(&np, &ep);
                    if !iso(&x, &y) || !iso_refined(&x, &y) {
                        b += 1;
                    }
                }
            }
            b
        })
        .sum();
    println!("selftest iso-renumbering: diagrams={} failures={}", cnt, bad2);
    fail |= bad2 > 0;
    // 2b. the propagating search agrees with the simple index-order search on all pairs of a universe with
    //     two hyperedges (free interfaces: every component start is a choice), and on large structured
    //     shapes against their renumberings (where the simple search is not usable)
    let u3 = Spec::hyper(3, 2, 1, 1, 2).universe().all_open();
    let n3 = u3.len();
    let (p3, i3, bad2b) = (0..n3)
        .into_par_iter()
        .map(|i| {
            let mut c = (0u64, 0u64, 0u64);
            for j in 0..n3 {
                let (x, y) = (iso_refined(&u3[i], &u3[j]), iso_simple(&u3[i], &u3[j]));
                c.0 += 1;
                c.1 += x as u64;
                c.2 += (x != y) as u64;
            }
            c
        })
        .reduce(|| (0, 0, 0), |a, b| (a.0 + b.0, a.1 + b.1, a.2 + b.2));
    println!("selftest iso-vs-simple: universe={} pairs={} isomorphic={} disagreements={}", n3, p3, i3, bad2b);
    fail |= bad2b > 0;
    let big = ohmc::props::structured::shapes_at(&[33, 65, 129], false);
    let tb = std::time::Instant::now();
    let badbig: u64 = big
        .par_iter()
        .map(|(name, f)| {
            let mut b = 0u64;
            let t1 = std::time::Instant::now();
            let _g = Guard(name.clone(), t1);
            for g in ohmc::props::structured::numberings(f) {
                if !iso(f, &g) {
                    b += 1;
                }
                // and a non-isomorphic neighbour: one incidence moved
                let mut h = g.clone();
                if let Some(e) = h.edges.iter_mut().find(|e| !e.src.is_empty()) {
                    let old = e.src[0];
                    e.src[0] = (old + 1) % h.nodes.len();
                    let mut degs = vec![0usize; h.nodes.len()];
                    for e in &h.edges {
                        for &v in e.src.iter().chain(e.tgt.iter()) {
                            degs[v] += 1;
                        }
                    }
                    let mut dg = vec![0usize; f.nodes.len()];
                    for e in &f.edges {
                        for &v in e.src.iter().chain(e.tgt.iter()) {
                            dg[v] += 1;
                        }
                    }
                    degs.sort();
                    dg.sort();
                    if degs != dg && iso(f, &h) {
                        b += 1;
                    }
                }
            }
            b
        })
        .sum();
    println!("selftest iso-large: shapes={} failures={} ({:.1}s)", big.len(), badbig, tb.elapsed().as_secs_f64());
    fail |= badbig > 0;
    // 2c. the un-quotiented presentation `exploded` denotes the diagram it was made from
    let ux = Spec::open(3, 2, 2, 2, 2, 2, 2);
    let ue = Spec { e_max: 1, ..ux.clone() }.universe();
    let badx: u64 = (0..ue.count())
        .into_par_iter()
        .map(|i| {
            let p = ue.get_open(i);
            let l = PLax::exploded(&p);
            match l.strictify() {
                Some(q) if iso(&p, &q) && l.open.nodes.len() >= p.nodes.len() => 0,
                _ => 1,
            }
        })
        .sum();
    println!("selftest exploded-presentation: diagrams={} failures={}", ue.count(), badx);
    fail |= badx > 0;
    // 3. non-isomorphism is detected: changing one incidence or one interface entry of a diagram
    //    whose nodes are all distinguishable must break isomorphism
    let x: POpen<u8, u8> = POpen { nodes: vec![0, 1, 2], edges: vec![PEdge { label: 0, src: vec![0, 1], tgt: vec![2] }], s: vec![0, 1], t: vec![2] };
    let mut y = x.clone();
    y.edges[0].src = vec![1, 0];
    let mut z = x.clone();
    z.s = vec![1, 0];
    if iso(&x, &y) || iso(&x, &z) || !iso(&x, &x) {
        println!("selftest iso-discriminates: FAILED");
        fail = true;
    }
    // 4. reference gluing: classes() against a union-find-free second formulation (reachability)
    let mut bad3 = 0u64;
    let mut tot3 = 0u64;
    for n in 0..=4usize {
        for ps in lists(n * n, 3) {
            let pairs: Vec<(usize, usize)> = ps.iter().map(|p| (p / n, p % n)).collect();
            let (q, k) = classes(n, &pairs);
            // reachability closure
            let mut r = vec![vec![false; n]; n];
            for i in 0..n {
                r[i][i] = true;
            }
            for &(a, b) in &pairs {
                r[a][b] = true;
                r[b][a] = true;
            }
            for m in 0..n {
                for i in 0..n {
                    for j in 0..n {
                        if r[i][m] && r[m][j] {
                            r[i][j] = true;
                        }
                    }
                }
            }
            tot3 += 1;
            for i in 0..n {
                for j in 0..n {
                    if (q[i] == q[j]) != r[i][j] {
                        bad3 += 1;
                    }
                }
            }
            if !is_dense_surjection(&q, k) {
                bad3 += 1;
            }
        }
    }
    println!("selftest classes-vs-reachability: pair-lists={} failures={}", tot3, bad3);
    fail |= bad3 > 0;
    fail |= !ohmc::selftest_extra();
    println!("selftest done in {:.1}s: {}", t0.elapsed().as_secs_f64(), if fail { "FAILED" } else { "ok" });
    std::process::exit(if fail { 2 } else { 0 });
}
