use ohmc::onvec::B;
use ohmc::props::c03::*;
use ohmc_core::explore::*;
use ohmc_core::plain::*;
use ohmc_core::uni::*;

fn main() {
    let mut ctx = Ctx::from_args("C03");
    let quick = ctx.quick();
    // associativity: all composable triples
    let spec = if quick { Spec::open(2, 1, 1, 1, 1, 1, 1) } else { Spec::open(2, 1, 1, 1, 2, 2, 2) };
    let u = spec.universe().all_open();
    let idx = by_source(&u);
    ctx.run_slice(Slice::new(format!("assoc[{}]", spec.name()), u.len() as u64, |i, loc| check_assoc_from::<B>(&u, &idx, i as usize, loc)).heavy());
    let spec2 = if quick { Spec::open(2, 1, 2, 2, 2, 2, 1) } else { Spec::open(3, 1, 1, 1, 1, 1, 1) };
    let u2 = spec2.universe().all_open();
    let idx2 = by_source(&u2);
    if !quick {
        ctx.run_slice(Slice::new(format!("assoc[{}]", spec2.name()), u2.len() as u64, |i, loc| check_assoc_from::<B>(&u2, &idx2, i as usize, loc)).heavy());
    }
    // identity laws
    for specid in Spec::family_3x2(if quick { 1 } else { 2 }, 0, !quick) {
        let uid = specid.universe();
        ctx.run_slice(Slice::new(format!("identity[{}]", specid.name()), uid.count(), |i, loc| check_identity::<B>(&uid.get_open(i), loc)));
    }
    // interchange: all pairs of composable pairs of a small universe
    let speci = if quick { Spec::open(1, 1, 1, 1, 1, 1, 1) } else { Spec::open(2, 1, 1, 1, 1, 1, 1) };
    let ui = speci.universe().all_open();
    let mut pairs: Vec<(POpen<u8, u8>, POpen<u8, u8>)> = vec![];
    for f in &ui {
        for g in &ui {
            if f.target_type() == g.source_type() {
                pairs.push((f.clone(), g.clone()));
            }
        }
    }
    ctx.run_slice(Slice::new(format!("interchange[{} composable pairs of {}]^2", pairs.len(), speci.name()), pairs.len() as u64, |i, loc| check_interchange::<B>(&pairs, i as usize, loc)).heavy());
    // associativity on spiders with boundaries up to 2 plus single operations (non-injective legs on both sides)
    let mut ua = Spec { n_min: 0, n_max: 2, e_min: 0, e_max: 0, ks: 0, kt: 0, lw: 1, lx: 1, a: 2, b: 2, q: 0 }.universe().all_open();
    for a in 0..=2usize {
        for b in 0..=2usize {
            ua.push(POpen::singleton(0u8, &vec![0u8; a], &vec![0u8; b]));
        }
    }
    let idxa = by_source(&ua);
    ctx.run_slice(Slice::new(format!("assoc-spiders-and-operations[{} diagrams, boundaries <=2]", ua.len()), ua.len() as u64, |i, loc| check_assoc_from::<B>(&ua, &idxa, i as usize, loc)).heavy());
    // associativity across a permutation of a long boundary: (f;p);g vs f;(p;g) on structured gluing pairs
    let gp = ohmc::props::structured::gluing_pairs(if quick { 10 } else { 20 }, if quick { 7 } else { 8 });
    ctx.run_slice(Slice::new(format!("assoc-structured-gluing[{} pairs x 2 permutations]", gp.len()), gp.len() as u64 * 2, |i, loc| {
        let (_, f, g) = &gp[(i / 2) as usize];
        let k = f.t.len();
        let p = POpen::<u8, u8> { nodes: vec![0; k], edges: vec![], s: (0..k).collect(), t: if i % 2 == 0 { (0..k).collect() } else { (0..k).rev().collect() } };
        // g's source leg has to be listed in the order p delivers
        let mut g2 = g.clone();
        if i % 2 == 1 {
            g2.s.reverse();
        }
        check_assoc_triple::<B>(f, &p, &g2, loc);
    }).heavy());
    // lax associativity across boundaries of three with repeats on both sides: every composable triple of edge-free
    // diagrams on <=2 nodes (<=3 for the middle one; f: 0 -> 3, p: 3 -> 3, g: 3 -> 0 wires)
    let legs3 = |n: usize| -> Vec<Vec<usize>> { ohmc_core::uni::tables(3, n) };
    let mut tri: Vec<(PLax<u8, u8>, PLax<u8, u8>, PLax<u8, u8>)> = vec![];
    for nf in 1..=2usize {
        for ft in legs3(nf) {
            for np in 1..=3usize {
                for ps in legs3(np) {
                    for pt in legs3(np) {
                        for ng in 1..=2usize {
                            for gs in legs3(ng) {
                                let d = |n: usize, s: Vec<usize>, t: Vec<usize>| PLax::strict(POpen { nodes: vec![0u8; n], edges: vec![], s, t });
                                tri.push((d(nf, vec![], ft.clone()), d(np, ps.clone(), pt.clone()), d(ng, gs.clone(), vec![])));
                            }
                        }
                    }
                }
            }
        }
    }
    ctx.run_slice(Slice::new(format!("lax-assoc-boundaries-of-three[{} triples of edge-free diagrams on <=2 (middle: <=3) nodes]", tri.len()), tri.len() as u64, |i, loc| check_lax_laws(&tri[i as usize].0, &tri[i as usize].1, &tri[i as usize].2, loc)));
    // the laws on large operands (sizes 33 .. 129): identities, naturality of the symmetry on all pairs, and
    // associativity on all composable triples of one numbering per shape
    let sizes: Vec<usize> = if quick { vec![33, 65] } else { vec![33, 64, 65, 129] };
    let big: Vec<_> = ohmc::props::structured::shapes_at_labelled(&sizes, false).into_iter().map(|x| x.1).collect();
    ctx.run_slice(Slice::new(format!("identity-large[sizes {:?}: {} diagrams]", sizes, big.len()), big.len() as u64, |i, loc| check_identity::<B>(&big[i as usize], loc)));
    let bigp: Vec<_> = big.iter().step_by(3).cloned().collect();
    let nbp = bigp.len() as u64;
    ctx.run_slice(Slice::new(format!("twist-natural-large[{}^2]", nbp), nbp * nbp, |i, loc| check_twist_natural::<B>(&bigp[(i / nbp) as usize], &bigp[(i % nbp) as usize], loc)));
    let bigt: Vec<_> = big.iter().step_by(5).filter(|f| f.s.len() == 1 && f.t.len() == 1).cloned().collect();
    let nbt = bigt.len() as u64;
    ctx.run_slice(Slice::new(format!("assoc-large[the composable ones of {}^3 triples of 1 -> 1 diagrams]", nbt), nbt * nbt * nbt, |i, loc| {
        let (f, g, h) = (&bigt[(i / (nbt * nbt)) as usize], &bigt[((i / nbt) % nbt) as usize], &bigt[(i % nbt) as usize]);
        // the law speaks about composable triples only (C01 covers the refusal of the others)
        let ty = |x: &POpen<u8, u8>, l: &[usize]| l.iter().map(|&v| x.nodes[v]).collect::<Vec<u8>>();
        if ty(f, &f.t) == ty(g, &g.s) && ty(g, &g.t) == ty(h, &h.s) {
            check_assoc_triple::<B>(f, g, h, loc)
        }
    }));
    // the laws in the lax representation: composites carry the pending unifications recorded by compose into
    // further operations (no quotient in between); all triples of the universe
    let lspec = if quick { Spec::lax(2, 1, 1, 1, 1, 1, 1, 0) } else { Spec::lax(2, 1, 1, 1, 1, 1, 1, 1) };
    let lu: Vec<_> = lspec.universe().all().into_iter().filter(|l| l.label_consistent()).collect();
    let nl = lu.len() as u64;
    ctx.run_slice(Slice::new(format!("lax-laws[{}^3]", lspec.name()), nl * nl * nl, |i, loc| {
        check_lax_laws(&lu[(i / (nl * nl)) as usize], &lu[((i / nl) % nl) as usize], &lu[(i % nl) as usize], loc)
    }));
    let lspec2 = Spec::lax(2, 1, 1, 2, 1, 1, 1, 0);
    let lu2: Vec<_> = lspec2.universe().all().into_iter().filter(|l| l.open.edges.is_empty() || l.open.s.len() + l.open.t.len() == 2).collect();
    let nl2 = lu2.len() as u64;
    if !quick {
        ctx.run_slice(Slice::new(format!("lax-laws-two-labels[{} diagrams of {} ^3]", nl2, lspec2.name()), nl2 * nl2 * nl2, |i, loc| {
            check_lax_laws(&lu2[(i / (nl2 * nl2)) as usize], &lu2[((i / nl2) % nl2) as usize], &lu2[(i % nl2) as usize], loc)
        }));
    }
    // interchange again, on spiders with boundaries up to 2 (merging / splitting legs on both sides)
    let specs2 = Spec { n_min: 0, n_max: 2, e_min: 0, e_max: 0, ks: 0, kt: 0, lw: 1, lx: 1, a: 2, b: 2, q: 0 };
    let mut us2 = specs2.universe().all_open();
    if !quick {
        us2.extend(Spec { e_min: 1, ..Spec::open(1, 1, 1, 1, 1, 1, 1) }.universe().all_open());
    }
    let mut pairs2: Vec<(POpen<u8, u8>, POpen<u8, u8>)> = vec![];
    for f in &us2 {
        for g in &us2 {
            if f.target_type() == g.source_type() {
                pairs2.push((f.clone(), g.clone()));
            }
        }
    }
    ctx.run_slice(Slice::new(format!("interchange-spiders[{} composable pairs of {}]^2", pairs2.len(), specs2.name()), pairs2.len() as u64, |i, loc| check_interchange::<B>(&pairs2, i as usize, loc)).heavy());
    // naturality of the symmetry: all pairs
    let spect = if quick { Spec::open(2, 1, 2, 2, 1, 1, 1) } else { Spec::open(2, 1, 2, 2, 2, 2, 2) };
    let ut = spect.universe().all_open();
    let nt = ut.len() as u64;
    ctx.run_slice(Slice::new(format!("twist-natural[{}^2]", spect.name()), nt * nt, |i, loc| check_twist_natural::<B>(&ut[(i / nt) as usize], &ut[(i % nt) as usize], loc)));
    // symmetry laws on all triples of object lists
    let k = if quick { 2 } else { 3 };
    let objs: Vec<Vec<u8>> = lists(2, k).into_iter().map(|l| l.into_iter().map(|x| x as u8).collect()).collect();
    let no = objs.len() as u64;
    ctx.run_slice(Slice::new(format!("symmetry-laws[lists<={} over 2 labels ^3]", k), no * no * no, |i, loc| {
        check_symmetry_laws::<B>(&objs[(i / (no * no)) as usize], &objs[((i / no) % no) as usize], &objs[(i % no) as usize], loc)
    }));
    let meta = Meta {
        rule: "all composable triples (associativity), all diagrams (unit laws), all pairs of composable pairs (interchange), all pairs of diagrams (naturality of the symmetry), all triples of object lists (self-inverse, hexagons, unit coherence); both sides of each law are computed through the public API and compared by the isomorphism decision procedure; associativity across identity / reversal of a long boundary on the structured gluing pairs of C01".into(),
        bounds: "assoc: <=2 nodes, <=1 edge of arity <=1 per operand (thorough: 2 edge labels, interfaces <=2; and <=3 nodes); identity: <=3 nodes <=2 edges; interchange: <=1-2 nodes, <=1 edge; naturality: <=2 nodes, <=1 edge, arity <=2; object lists of length <=2 (quick) / <=3 (thorough) over 2 labels".into(),
        assumptions: vec!["small-scope bound".into(), "Vec backend".into(), "isomorphism oracle self-tested against brute force".into()],
        explanation: "explicit enumeration; every law instance is decided by iso() on the decoded results of the real compose/tensor/identity/twist".into(),
    };
    std::process::exit(ctx.finish(meta));
}
