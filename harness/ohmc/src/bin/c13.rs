use ohmc::props::c12::*;
use ohmc::tf::*;
use ohmc_core::explore::*;
use ohmc_core::uni::*;

fn main() {
    let mut ctx = Ctx::from_args("C13");
    let quick = ctx.quick();
    let tfs = all_tfs(2, &[0, 1, 2, 3, 4, 5, 6, 7, 8]);
    let spec = if quick { Spec::open(2, 1, 2, 2, 2, 1, 1) } else { Spec::open(2, 2, 2, 2, 2, 1, 1) };
    let u = spec.universe();
    ctx.run_slice(Slice::new(format!("native[{} x {} functors]", spec.name(), tfs.len()), u.count(), |i, loc| {
        let f = u.get_open(i);
        for tf in &tfs {
            loc.more_cases(1);
            check_native(&f, *tf, loc);
        }
        loc.sample(|| serde_json::json!({"f": f, "functors": tfs.len()}));
    }));
    // exactly three nodes: complete universes
    let specs3 = if quick {
        vec![Spec { n_min: 3, ..Spec::open(3, 1, 2, 2, 1, 2, 1) }]
    } else {
        let b = Spec { n_min: 3, ..Spec::open(3, 2, 2, 2, 1, 2, 2) };
        vec![Spec { e_max: 1, ..b.clone() }, Spec { e_min: 2, lw: 1, a: 1, b: 1, ..b.clone() }, Spec { e_min: 2, ks: 1, kt: 1, ..b.clone() }, Spec { e_min: 2, a: 1, b: 1, ..b }]
    };
    for spec3 in specs3 {
        let u3 = spec3.universe();
        let tfs = &tfs;
        ctx.run_slice(Slice::new(format!("native-3-nodes[{} x {} functors]", spec3.name(), tfs.len()), u3.count(), move |i, loc| {
            let f = u3.get_open(i);
            for tf in tfs {
                loc.more_cases(1);
                check_native(&f, *tf, loc);
            }
        }));
    }
    let tf3: Vec<TF> = vec![TF { n: [1, 1, 1], recipe: 0 }, TF { n: [2, 0, 1], recipe: 0 }, TF { n: [1, 2, 0], recipe: 4 }, TF { n: [0, 1, 2], recipe: 2 }];
    let s4 = Spec { n_min: 4, n_max: 4, e_min: 0, e_max: 1, ks: 1, kt: 1, lw: 3, lx: 1, a: 1, b: 1, q: 0 };
    // every triple of image sizes in {0,1,2}^3 (single-operation images) next to the mixed recipes
    let mut tf3 = tf3;
    for a in 0..3usize {
        for b in 0..3usize {
            for c in 0..3usize {
                tf3.push(TF { n: [a, b, c], recipe: 0 });
            }
        }
    }
    let u4 = s4.universe();
    ctx.run_slice(Slice::new(format!("native-three-labels-four-nodes[{} x {} functors]", s4.name(), tf3.len()), u4.count(), |i, loc| {
        let f = u4.get_open(i);
        for tf in &tf3 {
            loc.more_cases(1);
            check_native(&f, *tf, loc);
        }
    }));
    let s3e = Spec { n_min: 1, n_max: 2, e_min: 3, e_max: 3, ks: 1, kt: 1, lw: 1, lx: 2, a: 1, b: 1, q: 0 };
    let u3e = s3e.universe();
    ctx.run_slice(Slice::new(format!("native-three-hyperedges[{} x {} functors]", s3e.name(), tf3.len()), u3e.count(), |i, loc| {
        let f = u3e.get_open(i);
        for tf in &tf3 {
            loc.more_cases(1);
            check_native(&f, *tf, loc);
        }
    }));
    // refusal: every lax diagram with at least one pending unification
    let lspec = if quick { Spec::lax(2, 1, 1, 2, 1, 1, 1, 2) } else { Spec::lax(3, 1, 2, 2, 1, 1, 1, 2) };
    let lu = lspec.universe();
    // refusal must not depend on the functor: identity-like, enlarging / erasing, and erasing EVERY object
    let tfs_r: Vec<TF> = vec![TF { n: [1, 1, 1], recipe: 0 }, TF { n: [2, 0, 1], recipe: 1 }, TF { n: [0, 2, 1], recipe: 2 }, TF { n: [0, 0, 0], recipe: 0 }, TF { n: [0, 0, 0], recipe: 6 }];
    ctx.run_slice(Slice::new(format!("refusal[{} with >=1 pending pair x {} functors]", lspec.name(), tfs_r.len()), lu.count(), |i, loc| {
        let l = lu.get(i);
        if !l.quot.is_empty() {
            for tf in &tfs_r {
                loc.more_cases(1);
                check_refusal(&l, *tf, loc);
            }
        }
    }));
    // larger inputs: structured diagrams (up to ~8 nodes / 5 hyperedges) with a few functors
    let st: Vec<_> = ohmc::props::structured::shapes(3).into_iter().map(|x| x.1).collect();
    let tfl: Vec<TF> = vec![TF { n: [1, 1, 1], recipe: 0 }, TF { n: [2, 0, 1], recipe: 4 }, TF { n: [0, 2, 1], recipe: 2 }];
    ctx.run_slice(Slice::new(format!("native-structured[{} diagrams x {} functors]", st.len(), tfl.len()), st.len() as u64 * tfl.len() as u64, |i, loc| check_native(&st[(i / tfl.len() as u64) as usize], tfl[(i % tfl.len() as u64) as usize], loc)));
    // the same on large diagrams (sizes 33 .. 129)
    let sizes: Vec<usize> = if ctx.quick() { vec![33, 65] } else { vec![33, 64, 65, 129] };
    let big: Vec<_> = ohmc::props::structured::shapes_at(&sizes, false).into_iter().map(|x| x.1).collect();
    ctx.run_slice(Slice::new(format!("native-structured-large[sizes {:?}: {} diagrams x {} functors]", sizes, big.len(), tfl.len()), big.len() as u64 * tfl.len() as u64, |i, loc| check_native(&big[(i / tfl.len() as u64) as usize], tfl[(i % tfl.len() as u64) as usize], loc)));
    let meta = Meta {
        rule: "45 functors (as in C12, including images handed over as un-quotiented lax composites) crossed with every quotient-free lax diagram of the universes: try_define_map_arrow must return a diagram that can be quotiented and is then isomorphic to the dyn-functor (strict path) image and to literal substitution; map_arrow_witness must return the same diagram plus a witness with one segment per input node, of length |F(label)|, carrying the labels of F(label) in order, such that the input interfaces pushed through witness and quotient are the output interfaces; every lax diagram with a pending unification must be refused by both; plus four-node diagrams over a third node label and diagrams with three hyperedges".into(),
        bounds: "<=2 nodes, <=1 (quick) / 2 hyperedges of arity <=2, interfaces <=1; 3-node diagrams (prefix in quick); refusal: <=2-3 nodes, <=2 pending pairs".into(),
        assumptions: vec!["finite functor family as in C12".into()],
        explanation: "explicit enumeration of programs x inputs on the real native lax functor code".into(),
    };
    std::process::exit(ctx.finish(meta));
}
