use ohmc::props::c10::*;
use ohmc_core::explore::*;
use ohmc_core::plain::*;
use ohmc_core::uni::*;

fn main() {
    let mut ctx = Ctx::from_args("C10");
    let quick = ctx.quick();
    let specs = if quick { vec![Spec::open(3, 1, 2, 2, 2, 2, 2)] } else { Spec::family_3x2(2, 0, true) };
    for spec in specs {
        let u = spec.universe();
        ctx.run_slice(Slice::new(format!("round-trips[{}]", spec.name()), u.count(), |i, loc| check_roundtrip_strict(&u.get_open(i), loc)));
    }
    // pairs of label-consistent lax diagrams
    let (lspec, rspec) = if quick { (Spec::lax(2, 1, 1, 2, 1, 1, 2, 1), Spec::lax(2, 1, 1, 2, 1, 2, 1, 1)) } else { (Spec::lax(2, 1, 2, 2, 1, 1, 2, 1), Spec::lax(2, 1, 2, 2, 1, 2, 1, 1)) };
    let all: Vec<PLax<u8, u8>> = lspec.universe().all().into_iter().filter(|l| l.label_consistent()).collect();
    let allr: Vec<PLax<u8, u8>> = rspec.universe().all().into_iter().filter(|l| l.label_consistent()).collect();
    let n = allr.len() as u64;
    ctx.run_slice(Slice::new(format!("pairs[{} of {} x {} of {} (label-consistent)]", all.len(), lspec.name(), n, rspec.name()), all.len() as u64 * n, |i, loc| check_pair(&all[(i / n) as usize], &allr[(i % n) as usize], loc)));
    let lspecs1 = if quick {
        vec![Spec::lax(2, 1, 2, 2, 2, 1, 1, 2), Spec { n_min: 3, lw: 1, lx: 1, ..Spec::lax(3, 1, 2, 2, 2, 1, 1, 2) }, Spec { n_min: 3, ks: 1, kt: 1, ..Spec::lax(3, 1, 2, 2, 2, 1, 1, 2) }]
    } else {
        let mut v = Spec::family_3x2(1, 2, false);
        v.push(Spec::lax(2, 1, 2, 2, 2, 2, 2, 2));
        v
    };
    for lspec1 in lspecs1 {
        let u1 = lspec1.universe();
        ctx.run_slice(Slice::new(format!("dagger/to_strict[{}, label-consistent ones]", lspec1.name()), u1.count(), |i, loc| {
            let l = u1.get(i);
            if l.label_consistent() {
                check_single(&l, loc)
            }
        }));
    }
    // boundaries of length three with repeats on both sides and two labels (edge-free operands): definedness of the
    // checked and unchecked lax compositions position by position, and the glued result
    let bl: Vec<PLax<u8, u8>> = Spec { n_min: 0, n_max: 3, e_min: 0, e_max: 0, ks: 0, kt: 0, lw: 2, lx: 1, a: 1, b: 3, q: 0 }.universe().all_open().into_iter().map(PLax::strict).collect();
    let br: Vec<PLax<u8, u8>> = Spec { n_min: 0, n_max: 3, e_min: 0, e_max: 0, ks: 0, kt: 0, lw: 2, lx: 1, a: 3, b: 1, q: 0 }.universe().all_open().into_iter().map(PLax::strict).collect();
    let nbr = br.len() as u64;
    ctx.run_slice(Slice::new(format!("pairs-boundaries-of-three[{} x {} edge-free diagrams on <=3 nodes, 2 labels]", bl.len(), nbr), bl.len() as u64 * nbr, |i, loc| check_pair(&bl[(i / nbr) as usize], &br[(i % nbr) as usize], loc)));
    // un-quotiented presentations of strict diagrams (every node occurrence its own node, chained by pending
    // unifications): singles, and all pairs of a smaller universe
    let xs1 = if quick { Spec::open(3, 1, 2, 2, 2, 2, 2) } else { Spec::open(2, 2, 2, 2, 2, 2, 2) };
    let xu1 = xs1.universe();
    ctx.run_slice(Slice::new(format!("dagger/to_strict-exploded[{}]", xs1.name()), xu1.count(), |i, loc| check_single(&PLax::exploded(&xu1.get_open(i)), loc)));
    let (xs2l, xs2r) = if quick { (Spec::open(2, 1, 1, 2, 1, 1, 2), Spec::open(2, 1, 1, 2, 1, 2, 1)) } else { (Spec::open(2, 1, 2, 2, 1, 2, 2), Spec::open(2, 1, 2, 2, 1, 2, 2)) };
    let xu2l: Vec<PLax<u8, u8>> = xs2l.universe().all_open().iter().map(PLax::exploded).collect();
    let xu2r: Vec<PLax<u8, u8>> = xs2r.universe().all_open().iter().map(PLax::exploded).collect();
    let nx2 = xu2r.len() as u64;
    ctx.run_slice(Slice::new(format!("pairs-exploded[{} x {}]", xs2l.name(), xs2r.name()), xu2l.len() as u64 * nx2, |i, loc| check_pair(&xu2l[(i / nx2) as usize], &xu2r[(i % nx2) as usize], loc)));
    let objs: Vec<Vec<u8>> = lists(2, 3).into_iter().map(|l| l.into_iter().map(|x| x as u8).collect()).collect();
    let no = objs.len() as u64;
    ctx.run_slice(Slice::new("identity/twist/singleton[lists<=3 over 2 labels ^2]", no * no, |i, loc| check_constructors(&objs[(i / no) as usize], &objs[(i % no) as usize], loc)));
    let cs = Spec { n_min: 0, n_max: 3, e_min: 0, e_max: 0, ks: 0, kt: 0, lw: 2, lx: 1, a: 3, b: 3, q: 0 }.universe();
    ctx.run_slice(Slice::new("spider[cospans <=3 nodes, legs <=3]", cs.count(), |i, loc| check_spider(&cs.get_open(i), loc)));
    // three hyperedges of mixed arities (0, 1, 2) over one or two nodes
    let s3 = Spec { n_min: 1, n_max: 2, e_min: 3, e_max: 3, ks: 2, kt: 1, lw: 1, lx: 1, a: 1, b: 0, q: 0 };
    let u3 = s3.universe();
    ctx.run_slice(Slice::new(format!("round-trips-three-hyperedges[{}]", s3.name()), u3.count(), |i, loc| check_roundtrip_strict(&u3.get_open(i), loc)));
    // larger inputs: round trips on structured diagrams, lax composition along long boundaries (structured gluing pairs)
    let st: Vec<_> = ohmc::props::structured::shapes(4).into_iter().map(|x| x.1).collect();
    ctx.run_slice(Slice::new(format!("round-trips-structured[{} diagrams]", st.len()), st.len() as u64, |i, loc| check_roundtrip_strict(&st[i as usize], loc)));
    let gp = ohmc::props::structured::gluing_pairs(8, 7);
    ctx.run_slice(Slice::new(format!("pairs-structured-gluing[{} pairs]", gp.len()), gp.len() as u64, |i, loc| {
        let (f, g) = (&gp[i as usize].1, &gp[i as usize].2);
        // f carries two pending unifications of its own
        let lf = PLax { open: f.clone(), quot: (1..f.nodes.len()).map(|v| (v, v - 1)).take(2).collect() };
        check_pair(&lf, &PLax::strict(g.clone()), loc)
    }).heavy());
    // round trips on large diagrams (sizes 33 .. 129)
    let sizes: Vec<usize> = if ctx.quick() { vec![33, 65] } else { vec![33, 64, 65, 129] };
    let big: Vec<_> = ohmc::props::structured::shapes_at_labelled(&sizes, false).into_iter().map(|x| x.1).collect();
    ctx.run_slice(Slice::new(format!("round-trips-structured-large[sizes {:?}: {} diagrams]", sizes, big.len()), big.len() as u64, |i, loc| check_roundtrip_strict(&big[i as usize], loc)));
    let meta = Meta {
        rule: "every strict diagram (from_strict/to_strict round trips as exact data, both directions); every ordered pair of label-consistent lax diagrams with pending unifications (compose defined iff types match, lax_compose iff arities match, both strictify to the strict composite up to iso; tensor; tensor_assign / append / coproduct_assign equal the pure forms as data); every label-consistent lax diagram (dagger, to_strict vs the reference quotient); all pairs of object lists (identity, twist, singleton); all cospans (spider)".into(),
        bounds: "round trips: <=3 nodes, <=1-2 edges; pairs: <=2 nodes, <=1 edge, interfaces <=2, <=1 (quick) / 2 pending pairs; singles: <=3 nodes, <=2 pending pairs; object lists <=3; cospans <=3 nodes with legs <=3".into(),
        assumptions: vec!["small-scope bound".into(), "the strict operations themselves are judged in C01-C04".into()],
        explanation: "explicit enumeration; strictification by the real to_strict, comparison by the isomorphism oracle; in-place forms compared field for field".into(),
    };
    let _ = POpen::<u8, u8>::empty();
    std::process::exit(ctx.finish(meta));
}
