use ohmc::onvec::{C05Raw, C06, C08, B};
use ohmc::props::c05::*;
use ohmc_core::explore::*;
use ohmc_core::uni::*;

fn main() {
    let mut ctx = Ctx::from_args("C05");
    let quick = ctx.quick();
    let raw = C05Raw::new();
    ctx.run_slice(Slice::new("raw-hypergraph-constructors", raw.count, |i, loc| raw.run(i, loc)));
    let spec = if quick { Spec::open(2, 1, 2, 2, 2, 1, 1) } else { Spec::open(2, 1, 2, 2, 2, 2, 2) };
    let u = spec.universe().all_open();
    let n = u.len() as u64;
    ctx.run_slice(Slice::new(format!("typed-pairs[{}^2]", spec.name()), n * n, |i, loc| check_pair::<B>(&u[(i / n) as usize], &u[(i % n) as usize], loc)));
    let specs1 = if quick { vec![Spec::open(3, 1, 2, 2, 2, 2, 2)] } else { Spec::family_3x2(2, 0, true) };
    for spec1 in specs1 {
        let u1 = spec1.universe();
        ctx.run_slice(Slice::new(format!("typed-single[{}]", spec1.name()), u1.count(), |i, loc| check_single::<B>(&u1.get_open(i), loc)));
    }
    // operation batches: <=3 operations, types of length <=2 over 2 labels, 2 operation labels
    let tys: Vec<Vec<u8>> = lists(2, 2).into_iter().map(|l| l.into_iter().map(|x| x as u8).collect()).collect();
    let mut one: Vec<(u8, Vec<u8>, Vec<u8>)> = vec![];
    for x in 0..2u8 {
        for a in &tys {
            for b in &tys {
                one.push((x, a.clone(), b.clone()));
            }
        }
    }
    let m = one.len() as u64;
    let kmax = if quick { 2 } else { 3 };
    let total: u64 = (0..=kmax).map(|k| m.pow(k)).sum();
    ctx.run_slice(Slice::new(format!("operation-batches[<={} ops]", kmax), total, |mut i, loc| {
        let mut k = 0u32;
        loop {
            let c = m.pow(k);
            if i < c {
                break;
            }
            i -= c;
            k += 1;
        }
        let mut ops = vec![];
        for _ in 0..k {
            ops.push(one[(i % m) as usize].clone());
            i /= m;
        }
        check_batch::<B>(&ops, loc)
    }));
    let lspec = if quick { Spec::lax(2, 1, 1, 2, 2, 1, 1, 1) } else { Spec::lax(2, 1, 2, 2, 1, 1, 2, 1) };
    let lu = lspec.universe().all();
    let ln = lu.len() as u64;
    ctx.run_slice(Slice::new(format!("lax-typed-pairs[{}^2]", lspec.name()), ln * ln, |i, loc| check_lax_pair(&lu[(i / ln) as usize], &lu[(i % ln) as usize], loc)));
    // complete universes: <=2 nodes with <=1 hyperedge, and 3 nodes with <=1 hyperedge under one label per sort or
    // unary hyperedges (quick); thorough: everything with <=1 hyperedge, everything on <=2 nodes, 3 nodes x 2 hyperedges
    // with one label per sort or unary hyperedges; <=2 pending pairs throughout
    let lspecs1 = if quick {
        vec![Spec::lax(2, 1, 2, 2, 2, 1, 1, 2), Spec { n_min: 3, lw: 1, lx: 1, ..Spec::lax(3, 1, 2, 2, 2, 1, 1, 2) }, Spec { n_min: 3, ks: 1, kt: 1, ..Spec::lax(3, 1, 2, 2, 2, 1, 1, 2) }]
    } else {
        Spec::family_3x2(1, 2, false)
    };
    for lspec1 in lspecs1 {
        let lu1 = lspec1.universe();
        ctx.run_slice(Slice::new(format!("lax-typed-single[{}]", lspec1.name()), lu1.count(), |i, loc| check_lax_single(&lu1.get(i), loc)));
    }
    // spider / half_spider are checked constructors too (shared with C04): every (leg, declared codomain, leg, declared
    // codomain, node list) with legs of length <= 2 into <= 3
    let mut acc: Vec<(Vec<usize>, usize, Vec<usize>, usize, Vec<u8>)> = vec![];
    for sm in 0..=3usize {
        for s in lists(sm, 2) {
            for tm in 0..=3usize {
                for t in lists(tm, 2) {
                    for n in 0..=3usize {
                        for w in ohmc_core::uni::tables(n, 2) {
                            acc.push((s.clone(), sm, t.clone(), tm, w.iter().map(|&x| x as u8).collect()));
                        }
                    }
                }
            }
        }
    }
    ctx.run_slice(Slice::new("raw-spider/half_spider[legs<=2 into <=3, |w|<=3]", acc.len() as u64, |i, loc| {
        let c = &acc[i as usize];
        ohmc::props::c04::check_spider_acceptance::<B>(&c.0, c.1, &c.2, c.3, &c.4, loc)
    }));
    // the other checked constructors on raw data (shared with C06 / C08)
    let c6 = C06::new(true);
    let n6 = c6.families.iter().find(|f| f.0 == "new").unwrap().1;
    ctx.run_slice(Slice::new("raw-FiniteFunction::new", n6, |i, loc| c6.run("new", i, loc)));
    let c8 = C08::new(true);
    for fam in ["new", "operations_new"] {
        let cnt = c8.families.iter().find(|f| f.0 == fam).unwrap().1;
        let c = &c8;
        ctx.run_slice(Slice::new(format!("raw-IndexedCoproduct/Operations::{}", fam), cnt, move |i, loc| c.run(fam, i, loc)));
    }
    // deletions keep lax diagrams well-formed
    let dspecs = if quick { vec![Spec::lax(3, 1, 2, 2, 1, 1, 1, 1)] } else { Spec::family_3x2(2, 1, false).into_iter().map(|s| Spec { lx: 1, ..s }).collect() };
    for dspec in dspecs {
        let du = dspec.universe();
        ctx.run_slice(Slice::new(format!("lax-deletions-stay-well-formed[{}]", dspec.name()), du.count(), |i, loc| check_lax_deletions(&du.get(i), loc)));
    }
    // the Forget functors return well-formed, type-preserving diagrams (variable hyperedges of arity <=3 x <=3)
    let sft = ohmc::props::c19::structured_forget_terms();
    ctx.run_slice(Slice::new(format!("forget-functor-outputs[{} terms]", sft.len()), sft.len() as u64, |i, loc| ohmc::props::c19::check_forget_term(&sft[i as usize], loc)));
    // larger inputs: typed results on structured diagrams; batches of four operations with types of length up to 3
    let st: Vec<_> = ohmc::props::structured::shapes(3).into_iter().map(|x| x.1).collect();
    ctx.run_slice(Slice::new(format!("typed-single-structured[{} diagrams]", st.len()), st.len() as u64, |i, loc| {
        let f = &st[i as usize];
        if f.nodes.len() <= 5 {
            check_single::<B>(f, loc)
        }
    }));
    let nst = st.len() as u64;
    ctx.run_slice(Slice::new(format!("typed-pairs-structured[{}^2]", nst), nst * nst, |i, loc| check_pair::<B>(&st[(i / nst) as usize], &st[(i % nst) as usize], loc)));
    // the same on large operands (sizes 33 .. 129)
    let sizes: Vec<usize> = if ctx.quick() { vec![33, 65] } else { vec![33, 64, 65, 129] };
    let big: Vec<_> = ohmc::props::structured::shapes_at_labelled(&sizes, false).into_iter().map(|x| x.1).step_by(2).collect();
    let nb = big.len() as u64;
    ctx.run_slice(Slice::new(format!("typed-pairs-structured-large[sizes {:?}: {}^2]", sizes, nb), nb * nb, |i, loc| check_pair::<B>(&big[(i / nb) as usize], &big[(i % nb) as usize], loc)));
    let tys3: Vec<Vec<u8>> = vec![vec![], vec![0], vec![1, 0], vec![0, 1, 1]];
    let mut ops4: Vec<(u8, Vec<u8>, Vec<u8>)> = vec![];
    for a in &tys3 {
        for b in &tys3 {
            ops4.push((ops4.len() as u8 % 2, a.clone(), b.clone()));
        }
    }
    let m4 = ops4.len() as u64;
    ctx.run_slice(Slice::new(format!("operation-batches-of-four[{}^4]", m4), m4 * m4 * m4 * m4, |mut i, loc| {
        let mut ops = vec![];
        for _ in 0..4 {
            ops.push(ops4[(i % m4) as usize].clone());
            i /= m4;
        }
        check_batch::<B>(&ops, loc)
    }));
    let meta = Meta {
        rule: "every public constructor and categorical operation of the strict and lax modules over the listed universes: each result is decoded with the deep well-formedness checker (one source and one target list per hyperedge, sizes sum to the incidence length, sources.target = sum+1, every node reference and interface entry in range, declared codomains equal to the node count) and its type compared with the promised one; raw data for Hypergraph::new / OpenHypergraph::new with every combination of mismatched counts and codomains (<=3); the functor, optic and conversion outputs are deep-checked inside C10, C12, C13, C14".into(),
        bounds: "<=2-3 nodes, <=1-2 hyperedges, arity <=2, interfaces <=2, 2+2 labels; batches of <=2 (quick) / <=3 operations with types of length <=2".into(),
        assumptions: vec!["the raw-data sweeps of FiniteFunction::new, IndexedCoproduct::new/from_semifinite and Operations::new are the same code as in C06 / C08".into()],
        explanation: "explicit enumeration; well-formedness is checked on the raw public fields, types by reading labels through the interfaces".into(),
    };
    std::process::exit(ctx.finish(meta));
}
