use ohmc::onvec::B;
use ohmc::props::c17::check;
use ohmc_core::explore::*;
use ohmc_core::uni::*;

fn main() {
    ohmc::props::deep::maybe_child::<B>("C17");
    let mut ctx = Ctx::from_args("C17");
    let quick = ctx.quick();
    let specs: Vec<Spec> = if quick { vec![Spec::open(3, 2, 2, 1, 1, 2, 2)] } else { vec![Spec::open(3, 2, 2, 1, 1, 2, 2), Spec { n_min: 4, ..Spec::open(4, 2, 2, 1, 1, 2, 2) }, Spec { e_min: 3, ..Spec::open(3, 3, 2, 1, 1, 1, 1) }, Spec { e_min: 1, ..Spec::open(2, 2, 3, 1, 1, 2, 2) }] };
    for spec in specs {
        let u = spec.universe();
        ctx.run_slice(Slice::new(format!("predicates[{}]", spec.name()), u.count(), |i, loc| check::<B>(&u.get_open(i), loc)));
    }
    // edge-free diagrams on <=4 nodes with interfaces of length up to 4 (every table)
    let sif = Spec { n_min: 0, n_max: 4, e_min: 0, e_max: 0, ks: 0, kt: 0, lw: 1, lx: 1, a: 4, b: 4, q: 0 };
    let uif = sif.universe();
    ctx.run_slice(Slice::new(format!("long-interfaces[{}]", sif.name()), uif.count(), |i, loc| check::<B>(&uif.get_open(i), loc)));
    // one hyperedge with longer interfaces
    let sif2 = Spec { n_min: 2, n_max: 3, e_min: 1, e_max: 1, ks: 2, kt: 2, lw: 1, lx: 1, a: 3, b: 3, q: 0 };
    let uif2 = sif2.universe();
    let capif = if quick { 400_000 } else { u64::MAX };
    ctx.run_slice(Slice::new(format!("long-interfaces-one-edge[{} first {} of {}]", sif2.name(), capif.min(uif2.count()), uif2.count()), uif2.count().min(capif), |i, loc| check::<B>(&uif2.get_open(i), loc)));
    // many hyperedges of arity <= 1 on <= 3 nodes (5; thorough also 6): sparse dependencies, idle hyperedges
    for e in if quick { vec![5usize] } else { vec![5, 6] } {
        let sp = Spec { e_min: e, ..Spec::hyper(3, e, 1, 1, 1) };
        let up = sp.universe();
        ctx.run_slice(Slice::new(format!("predicates-many-hyperedges[{}]", sp.name()), up.count(), move |i, loc| check::<B>(&up.get_open(i), loc)));
    }
    let msf = 14usize;
    ctx.run_slice(Slice::new(format!("sparse-frontier[{} hyperedges, every placement of 3 consumers and a join]", msf), ohmc::props::structured::sparse_frontier_count(msf), move |i, loc| check::<B>(&ohmc::props::structured::sparse_frontier(msf, i), loc)));
    let kmax = if quick { 6 } else { 8 };
    let mut st = ohmc::props::structured::shapes(kmax);
    st.extend(ohmc::props::structured::programs(kmax));
    st.extend(ohmc::props::structured::shuffled_dags());
    st.extend(ohmc::props::structured::degree_probes(if quick { 9 } else { 17 }));
    ctx.run_slice(Slice::new(format!("structured[sizes 1..{}, degree probes up to 9-17: {} diagrams]", kmax, st.len()), st.len() as u64, |i, loc| check::<B>(&st[i as usize].1, loc)));
    // the same families at large size parameters
    let sizes: Vec<usize> = if quick { vec![33, 64, 65, 129] } else { vec![33, 64, 65, 129, 255, 256, 257, 513] };
    let mut big = ohmc::props::structured::shapes_at(&sizes, false);
    big.extend(ohmc::props::structured::programs_at(&sizes, false));
    ctx.run_slice(Slice::new(format!("structured-large[sizes {:?}: {} diagrams]", sizes, big.len()), big.len() as u64, |i, loc| check::<B>(&big[i as usize].1, loc)));
    // deep diagrams (a dependency chain of tens of thousands of operations), each in a child process on a 2 MiB stack:
    // the call has to come back, and with the answer known in closed form
    let deep_sizes: Vec<usize> = if ctx.quick() { vec![30_000] } else { vec![30_000, 100_000] };
    let deep_cases: Vec<(&str, usize)> = ohmc::props::deep::FAMILIES.iter().flat_map(|f| deep_sizes.iter().map(move |&k| (*f, k))).collect();
    ctx.run_slice(Slice::new(format!("deep-chains[{:?} operations: chain, chain listed backwards, chain into a 2-cycle, star; one child process each]", deep_sizes), deep_cases.len() as u64, |i, loc| ohmc::props::deep::check_in_child(deep_cases[i as usize].0, deep_cases[i as usize].1, loc)).heavy());
    let meta = Meta {
        rule: "every open hypergraph of the listed universes (isolated nodes, dangling nodes, repeated incidences, parallel connections of multiplicity up to 4-6) and every node index: is_acyclic (on the hypergraph and on the open hypergraph), is_monogamous, in_degree, out_degree against definitions by closure and counting; any panic is a violation; run under the checked (overflow checks, debug assertions) and the release-like profile; non-trivial = has an isolated node, a degree >= 3, a cycle, or is monogamous; plus structured families of larger diagrams, enumerated completely for every size parameter up to the stated bound and in five numberings (fan-out/fan-in, k parallel operations, chains, stars, cycles with tails, diamonds, multiplicity k, operations whose predecessors sit at depths j and k of a chain, one node read k times)".into(),
        bounds: "quick: <=3 nodes, <=2 hyperedges of arity <=2, interfaces <=2; thorough adds 4 nodes, 3 hyperedges, arity 3".into(),
        assumptions: vec!["labels do not matter to these predicates (one label per sort)".into()],
        explanation: "explicit enumeration; two build profiles because the property demands totality in debug and release builds alike".into(),
    };
    std::process::exit(ctx.finish(meta));
}
