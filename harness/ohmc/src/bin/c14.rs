use ohmc::onvec::B;
use ohmc::props::c14::*;
use ohmc::tf::PlainOptic;
use ohmc_core::explore::*;
use ohmc_core::uni::*;
use std::sync::Arc;

fn main() {
    let mut ctx = Ctx::from_args("C14");
    let quick = ctx.quick();
    // typing / routing clause
    let mut rs: Vec<Route> = if quick { [routes(&[0, 2]), routes(&[1, 2])].concat() } else { routes(&[0, 1, 2]) };
    rs.sort_by_key(|r| (r.f, r.r, r.m));
    rs.dedup();
    // complete universes: <=2 nodes with <=1 hyperedge; thorough adds two unary hyperedges (all labels) and two
    // hyperedges of arity <=2 under one label per sort
    let specs = if quick {
        vec![Spec::open(2, 1, 2, 2, 2, 1, 1)]
    } else {
        vec![Spec::open(2, 1, 2, 2, 2, 1, 1), Spec { e_min: 2, ks: 1, kt: 1, ..Spec::open(2, 2, 2, 2, 2, 1, 1) }, Spec { e_min: 2, lw: 1, lx: 1, ..Spec::open(2, 2, 2, 2, 2, 1, 1) }]
    };
    let nr = rs.len() as u64;
    for spec in specs {
        let u = spec.universe();
        let rs = &rs;
        ctx.run_slice(Slice::new(format!("routing[{} x {} optics]", spec.name(), nr), u.count() * nr, move |i, loc| {
            let f = u.get_open(i / nr);
            let r = rs[(i % nr) as usize];
            // the lax entry points on every third optic
            check_optic::<B>(&f, Arc::new(r), &serde_json::json!(r), (i % nr) % 3 == 0, loc);
            loc.sample(|| serde_json::json!({"f": f, "optic": r}));
        }));
    }
    // 3-node diagrams with two operations, a handful of optics
    let few: Vec<Route> = vec![Route { f: [1, 1], r: [1, 1], m: [1, 0] }, Route { f: [2, 1], r: [1, 2], m: [0, 2] }, Route { f: [1, 0], r: [0, 2], m: [2, 1] }];
    let specs3 = if quick {
        // one hyperedge label, and one node label: complete universes of 3 nodes x 2 unary hyperedges
        vec![Spec { n_min: 3, e_min: 2, lx: 1, ..Spec::open(3, 2, 1, 2, 2, 1, 1) }, Spec { n_min: 3, e_min: 2, lw: 1, ..Spec::open(3, 2, 1, 2, 2, 1, 1) }]
    } else {
        vec![Spec { n_min: 3, e_min: 2, ..Spec::open(3, 2, 1, 2, 2, 1, 1) }, Spec { n_min: 3, e_min: 2, ..Spec::open(3, 2, 2, 1, 1, 1, 1) }]
    };
    for spec3 in specs3 {
        let u3 = spec3.universe();
        let few = &few;
        ctx.run_slice(Slice::new(format!("routing-3-nodes[{} x 3 optics]", spec3.name()), u3.count() * 3, move |i, loc| {
            let r = few[(i % 3) as usize];
            check_optic::<B>(&u3.get_open(i / 3), Arc::new(r), &serde_json::json!(r), true, loc)
        }));
    }
    // boundaries of three objects (the block transposition and its inverse differ from three blocks on): all wirings
    let specb = Spec { n_min: 1, n_max: 3, e_min: 0, e_max: 0, ks: 0, kt: 0, lw: 2, lx: 1, a: 3, b: 3, q: 0 };
    let ub = specb.universe();
    ctx.run_slice(Slice::new(format!("routing-boundaries-of-three[{} x 3 optics]", specb.name()), ub.count() * 3, |i, loc| {
        let r = few[(i % 3) as usize];
        check_optic::<B>(&ub.get_open(i / 3), Arc::new(r), &serde_json::json!(r), (i / 3) % 4 == 0, loc)
    }));
    let fullb1 = Spec { n_min: 3, n_max: 4, e_min: 1, e_max: 1, ks: 2, kt: 2, lw: 1, lx: 2, a: 3, b: 3, q: 0 };
    let specsb1 = if quick {
        // complete: 3 nodes, one unary hyperedge, boundaries up to 3; 3 nodes, one hyperedge of arity <=2, boundaries up to 2
        vec![Spec { n_max: 3, ks: 1, kt: 1, ..fullb1.clone() }, Spec { n_max: 3, a: 2, b: 2, ..fullb1.clone() }]
    } else {
        vec![fullb1.clone()]
    };
    for specb1 in specsb1 {
        let ub1 = specb1.universe();
        let few = &few;
        ctx.run_slice(Slice::new(format!("routing-boundaries-of-three-with-operation[{} x 1 optic]", specb1.name()), ub1.count(), move |i, loc| {
            let r = few[1];
            check_optic::<B>(&ub1.get_open(i), Arc::new(r), &serde_json::json!(r), false, loc)
        }));
    }
    // functoriality
    let specp = if quick { Spec::open(2, 1, 1, 2, 1, 1, 1) } else { Spec::open(2, 1, 1, 2, 2, 1, 1) };
    let up = specp.universe().all_open();
    let np = up.len() as u64;
    ctx.run_slice(Slice::new(format!("functoriality[{}^2 x 3 optics]", specp.name()), np * np * 3, |i, loc| {
        let r = few[(i % 3) as usize];
        let j = i / 3;
        check_optic_functoriality::<B>(&up[(j / np) as usize], &up[(j % np) as usize], Arc::new(r), &serde_json::json!(r), loc)
    }));
    // derivative clause
    let mut cs = vec![];
    let g = 3;
    for k in 0..=2 {
        cs.extend(circuits(k, g, 3));
    }
    if !quick {
        cs.extend(circuits(1, 4, 2));
    }
    let _: Arc<dyn PlainOptic> = Arc::new(RDiff);
    ctx.run_slice(Slice::new(format!("derivative[circuits <=2 inputs, <={} generators: {}]", g, cs.len()), cs.len() as u64, |i, loc| check_derivative::<B>(&cs[i as usize], false, loc)).heavy());
    let cl: Vec<_> = if quick { cs.iter().filter(|c| c.edges.len() <= 2).cloned().collect() } else { cs.clone() };
    ctx.run_slice(Slice::new(format!("derivative-lax-entry[{} circuits]", cl.len()), cl.len() as u64, |i, loc| check_derivative::<B>(&cl[i as usize], true, loc)).heavy());
    let meta = Meta {
        rule: "typing/routing: optics given by (|F(l)|, |R(l)|, |M(op)|) per label / operation class with labelled singleton forward and reverse images, crossed with every diagram of the universe; the optic image must have type interleave(FA,RA) -> interleave(FB,RB) and be isomorphic to the substitution l -> F(l)++R(l), op -> (fwd_op and rev_op sharing their residual nodes, R(A) bent to the source side); the adapted form must have type FA●RB -> FB●RA, the same hypergraph, and be monogamous when the input is; strict Optic and (on every third optic) lax Optic::map_arrow / map_adapted; composition and tensor preserved up to iso. Derivative: every monogamous acyclic circuit over {add, mul, neg, copy, discard, const 0/1/2} built by applying generators to ordered choices of open wires, every output order and every edge order; the adapted optic of the standard reverse-derivative lenses is evaluated on all x over {0,1,2,3,2^64-1} and dy in {unit vectors, all ones, a mixed vector} and must return (f(x), J^T dy), the Jacobian computed by forward-mode dual numbers Additionally all wirings with boundaries of up to three objects (where the block transposition and its inverse start to differ)".into(),
        bounds: "routing: lengths in {0,2} and {1,2} (quick, 127 optics) / {0,1,2} (729 optics); diagrams <=2 nodes, <=1-2 hyperedges; 3-node / 2-edge diagrams with 3 optics; circuits with <=2 inputs, <=3 generators (lax entry point in quick: <=2; thorough adds 1 input with 4 generators), <=3 outputs".into(),
        assumptions: vec!["ring Z/2^64 represented by u64 with wrapping arithmetic; inputs from 5 representatives".into(), "derivative is linear in dy, so unit vectors plus two more vectors are used for dy".into()],
        explanation: "explicit enumeration of programs (optics, circuits) x inputs on the real optic code; evaluation by the real strict::eval".into(),
    };
    std::process::exit(ctx.finish(meta));
}
