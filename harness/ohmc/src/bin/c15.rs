use ohmc::onvec::B;
use ohmc::props::c15::check;
use ohmc_core::explore::*;
use ohmc_core::uni::*;

fn main() {
    ohmc::props::deep::maybe_child::<B>("C15");
    let mut ctx = Ctx::from_args("C15");
    let quick = ctx.quick();
    let fast = ctx.profile == "fast";
    let specs: Vec<Spec> = if quick { vec![Spec::hyper(3, 3, 2, 1, 1)] } else { vec![Spec::hyper(3, 3, 2, 1, 1), Spec { e_min: 4, ..Spec::hyper(2, 4, 2, 1, 1) }, Spec { n_min: 4, ..Spec::hyper(4, 3, 2, 1, 1) }, Spec { n_min: 4, e_min: 4, ..Spec::hyper(5, 4, 1, 1, 1) }, Spec { e_min: 2, ..Spec::hyper(3, 2, 3, 1, 1) }] };
    for spec in specs {
        let u = spec.universe();
        // the fast (release-like) profile re-runs layer/layered_operations only; hooks are compared in the checked profile
        ctx.run_slice(Slice::new(format!("layer[{}]", spec.name()), u.count(), |i, loc| check::<B>(&u.get_open(i), !fast, loc)));
    }
    // many operations, few dependencies: every diagram with exactly 5 (thorough: also 6) operations of arity <= 1 on <= 3
    // nodes - idle operations next to short chains listed in any order (sparse adjacency tables)
    for e in if quick { vec![5usize] } else { vec![5, 6] } {
        let sp = Spec { e_min: e, ..Spec::hyper(3, e, 1, 1, 1) };
        let up = sp.universe();
        ctx.run_slice(Slice::new(format!("layer-many-operations[{}]", sp.name()), up.count(), move |i, loc| check::<B>(&up.get_open(i), !fast, loc)));
    }
    // fourteen operations, ten of them idle: two producers, three consumers and a join at every choice of four distinct
    // indices - a level of three operations with sparse indices discovered in every relative order
    let msf = 14usize;
    ctx.run_slice(Slice::new(format!("sparse-frontier[{} operations, every placement of 3 consumers and a join]", msf), ohmc::props::structured::sparse_frontier_count(msf), move |i, loc| check::<B>(&ohmc::props::structured::sparse_frontier(msf, i), !fast, loc)));
    // structured families of larger diagrams (fan-out/in, parallel, chains, cycles with tails, diamonds, ...)
    let kmax = if quick { 6 } else { 8 };
    let mut st = ohmc::props::structured::shapes(kmax);
    st.extend(ohmc::props::structured::programs(kmax));
    st.extend(ohmc::props::structured::shuffled_dags());
    ctx.run_slice(Slice::new(format!("structured[sizes 1..{}: {} diagrams]", kmax, st.len()), st.len() as u64, |i, loc| check::<B>(&st[i as usize].1, !fast, loc)));
    // the same families at large size parameters (size thresholds, long chains, wide layers, long cycles)
    let sizes: Vec<usize> = if quick { vec![33, 64, 65, 129] } else { vec![33, 64, 65, 129, 255, 256, 257, 513] };
    let mut big = ohmc::props::structured::shapes_at(&sizes, false);
    big.extend(ohmc::props::structured::programs_at(&sizes, false));
    ctx.run_slice(Slice::new(format!("structured-large[sizes {:?}: {} diagrams]", sizes, big.len()), big.len() as u64, |i, loc| check::<B>(&big[i as usize].1, !fast, loc)));
    // deep diagrams (a dependency chain of tens of thousands of operations), each in a child process on a 2 MiB stack:
    // the call has to come back, and with the answer known in closed form
    let deep_sizes: Vec<usize> = if ctx.quick() { vec![30_000] } else { vec![30_000, 100_000] };
    let deep_cases: Vec<(&str, usize)> = ohmc::props::deep::FAMILIES.iter().flat_map(|f| deep_sizes.iter().map(move |&k| (*f, k))).collect();
    ctx.run_slice(Slice::new(format!("deep-chains[{:?} operations: chain, chain listed backwards, chain into a 2-cycle, star; one child process each]", deep_sizes), deep_cases.len() as u64, |i, loc| ohmc::props::deep::check_in_child(deep_cases[i as usize].0, deep_cases[i as usize].1, loc)).heavy());
    let meta = Meta {
        rule: "every hypergraph of the listed universes (repeated nodes inside one operation, self-dependence, cycles with tails, zero-arity operations, dependency multiplicities up to 4-9), wrapped as an open hypergraph; layer() and layered_operations() are judged against the definition (any layering with the stated properties is accepted); with the verif-hooks feature converse, operation_adjacency, indegree and kahn are additionally compared with reference loops; run under the checked and the release-like profile; plus structured families of larger diagrams, enumerated completely for every size parameter up to the stated bound and in five numberings (fan-out/fan-in, k parallel operations, chains, stars, cycles with tails, diamonds, multiplicity k, operations whose predecessors sit at depths j and k of a chain, one node read k times)".into(),
        bounds: "quick: <=3 nodes, <=3 operations, arity <=2; thorough adds 4 operations on <=2 nodes, 4 nodes with <=3 operations, 4-5 nodes with 4 unary operations, arity 3 with 2 operations".into(),
        assumptions: vec!["labels are irrelevant to layering (one label per sort)".into(), "nothing is demanded about the layer or grouping of unvisited operations".into()],
        explanation: "explicit enumeration of the real strict::layer on every input; oracle by Floyd-Warshall closure and longest-chain relaxation on the plain model".into(),
    };
    std::process::exit(ctx.finish(meta));
}
