use ohmc::props::c09::{check_one_step, run_bfs, run_live};
use ohmc_core::uni::Spec;
use ohmc::props::laxbfs::*;
use ohmc_core::explore::*;
use ohmc_core::plain::*;

fn main() {
    let mut ctx = Ctx::from_args("C11");
    let quick = ctx.quick();
    let empty = vec![PLax::strict(POpen::empty())];
    // open hypergraphs: the whole alphabet, serde checked at every reached state
    let b = Bounds { nodes: 3, edges: if quick { 1 } else { 2 }, pairs: 1, iface: 1, arity_s: 2, arity_t: 1, labels: 2, del_ids: 2, hyper_only: false, alphabet: Alphabet::Full };
    run_bfs(&mut ctx, &format!("open-bfs[<={} nodes,<={} edges,<={} pairs,iface<={}]", b.nodes, b.edges, b.pairs, b.iface), b.clone(), empty.clone(), 20, if quick { 3_000_000 } else { 20_000_000 }, true, false);
    // bare hypergraphs (deletion witness observable), more pending pairs
    let bh = Bounds { nodes: 3, edges: 2, pairs: if quick { 1 } else { 2 }, iface: 0, arity_s: if quick { 1 } else { 2 }, arity_t: 1, labels: 2, del_ids: 2, hyper_only: true, alphabet: Alphabet::Full };
    run_bfs(&mut ctx, &format!("hypergraph-bfs[<={} nodes,<={} edges,<={} pairs]", bh.nodes, bh.edges, bh.pairs), bh.clone(), empty.clone(), 20, if quick { 3_000_000 } else { 20_000_000 }, false, false);
    // small model run twice (parallel and single-threaded) to show the search owns all nondeterminism
    let bs = Bounds { nodes: 2, edges: 1, pairs: 1, iface: 1, arity_s: 1, arity_t: 1, labels: 2, del_ids: 2, hyper_only: false, alphabet: Alphabet::Full };
    run_bfs(&mut ctx, "open-bfs-small[run twice]", bs.clone(), empty.clone(), 20, 2_000_000, true, true);
    // one step from arbitrary (larger) states: three hyperedges, arity three, more nodes
    let one: Vec<(Spec, Bounds)> = vec![
        // 3 hyperedges over <=2 nodes, unary
        (Spec { n_min: 2, n_max: 2, e_min: 3, e_max: 3, ks: 1, kt: 1, lw: 1, lx: 2, a: 1, b: 0, q: 0 }, Bounds { nodes: 9, edges: 9, pairs: 9, iface: 9, arity_s: 1, arity_t: 1, labels: 2, del_ids: 3, hyper_only: false, alphabet: Alphabet::Full }),
        // one hyperedge with source lists up to length 3 (non-ascending, repeated) over <=3 nodes
        (Spec { n_min: 2, n_max: 3, e_min: 1, e_max: 1, ks: 3, kt: 1, lw: 1, lx: 1, a: 1, b: 1, q: 1 }, Bounds { nodes: 9, edges: 9, pairs: 9, iface: 9, arity_s: 0, arity_t: 0, labels: 1, del_ids: 3, hyper_only: false, alphabet: Alphabet::Full }),
        // four nodes, one binary hyperedge, a pending pair
        (Spec { n_min: 4, n_max: 4, e_min: 1, e_max: 1, ks: 2, kt: 1, lw: 1, lx: 1, a: 1, b: 1, q: 1 }, Bounds { nodes: 9, edges: 9, pairs: 9, iface: 9, arity_s: 0, arity_t: 0, labels: 1, del_ids: 3, hyper_only: true, alphabet: Alphabet::Full }),
        // three nodes with up to two pending pairs (both orientations, chains through a node) and no hyperedge:
        // deletions by every identifier list of length <= 3 (sorted with repeats, gaps, out of range)
        (Spec { n_min: 3, n_max: 3, e_min: 0, e_max: 0, ks: 0, kt: 0, lw: 1, lx: 1, a: 1, b: 1, q: 2 }, Bounds { nodes: 9, edges: 9, pairs: 9, iface: 9, arity_s: 0, arity_t: 0, labels: 1, del_ids: 3, hyper_only: false, alphabet: Alphabet::Full }),
    ];
    for (k, (spec, bd)) in one.iter().enumerate() {
        let u = spec.universe();
        let cap = if quick { 60_000 } else { 2_000_000 };
        ctx.run_slice(Slice::new(format!("one-step-from-arbitrary-states-{}[{}]", k, spec.name()), { assert!(u.count() <= cap); u.count() }, move |i, loc| check_one_step(bd, &u.get(i), loc)));
    }
    // live object histories
    let bl = Bounds { nodes: 2, edges: 1, pairs: 1, iface: 1, arity_s: 1, arity_t: 1, labels: 2, del_ids: 1, hyper_only: false, alphabet: Alphabet::Full };
    run_live(&mut ctx, "open-live-histories", bl.clone(), if quick { 4 } else { 5 });
    run_live(&mut ctx, "hypergraph-live-histories", Bounds { hyper_only: true, iface: 0, ..bl }, if quick { 4 } else { 5 });
    let meta = Meta {
        rule: "breadth-first search from the empty diagram over every builder call with every argument inside the boundary: new_node, new_edge, new_operation, add_edge_source/target, unify, quotient, delete_nodes / delete_edges (id lists of length <=2 over 0..=count: valid, duplicate and one out-of-range id), map_nodes / with_nodes, map_edges / with_edges (right and wrong length), pushes onto the public interface vectors; on lax::OpenHypergraph and on lax::Hypergraph (where the deletion witness is observable); states deduplicated on exact equality; every transition compares the return value and every public field with the plain list model; at every reached state the serde_json round trip and the documented JSON shape are checked; all histories up to a fixed length are additionally replayed on one live object cloned at branch points".into(),
        bounds: "BFS: <=3 nodes, <=1 (quick) / 2 hyperedges of arity <=2+1, <=1-2 pending pairs, interfaces <=1, 2 node labels, 2 edge labels; live histories of length 4 (quick) / 5 on <=2 nodes; one-step slices: every action from every state with 3 unary hyperedges on <=2 nodes, with one hyperedge of arity <=3 on <=3 nodes, with 4 nodes".into(),
        assumptions: vec!["nothing is demanded of the diagram after a rejected (panicking) deletion".into(), "u8 labels".into()],
        explanation: "explicit-state model checking of the implementation: state = all public fields; transition = one real method call on a rebuilt real object; the search runs to its fixed point inside the boundary (or to the stated cap)".into(),
    };
    std::process::exit(ctx.finish(meta));
}
