use ohmc::props::c09::{run_bfs, run_live};
use ohmc::props::laxbfs::*;
use ohmc_core::explore::*;
use ohmc_core::plain::*;

fn main() {
    let mut ctx = Ctx::from_args("C11");
    let quick = ctx.quick();
    let empty = vec![PLax::strict(POpen::empty())];
    // open hypergraphs: the whole alphabet, serde checked at every reached state
    let b = Bounds { nodes: 3, edges: if quick { 1 } else { 2 }, pairs: 1, iface: 1, arity_s: 2, arity_t: 1, labels: 2, del_ids: 2, hyper_only: false, alphabet: Alphabet::Full };
    run_bfs(&mut ctx, &format!("open-bfs[<={} nodes,<={} edges,<={} pairs,iface<={}]", b.nodes, b.edges, b.pairs, b.iface), b.clone(), empty.clone(), 20, if quick { 3_000_000 } else { 20_000_000 }, true, false);
    // bare hypergraphs (deletion witness observable), more pending pairs
    let bh = Bounds { nodes: 3, edges: 2, pairs: if quick { 1 } else { 2 }, iface: 0, arity_s: if quick { 1 } else { 2 }, arity_t: 1, labels: 2, del_ids: 2, hyper_only: true, alphabet: Alphabet::Full };
    run_bfs(&mut ctx, &format!("hypergraph-bfs[<={} nodes,<={} edges,<={} pairs]", bh.nodes, bh.edges, bh.pairs), bh.clone(), empty.clone(), 20, if quick { 3_000_000 } else { 20_000_000 }, false, false);
    // small model run twice (parallel and single-threaded) to show the search owns all nondeterminism
    let bs = Bounds { nodes: 2, edges: 1, pairs: 1, iface: 1, arity_s: 1, arity_t: 1, labels: 2, del_ids: 2, hyper_only: false, alphabet: Alphabet::Full };
    run_bfs(&mut ctx, "open-bfs-small[run twice]", bs.clone(), empty.clone(), 20, 2_000_000, true, true);
    // live object histories
    let bl = Bounds { nodes: 2, edges: 1, pairs: 1, iface: 1, arity_s: 1, arity_t: 1, labels: 2, del_ids: 1, hyper_only: false, alphabet: Alphabet::Full };
    run_live(&mut ctx, "open-live-histories", bl.clone(), if quick { 4 } else { 5 });
    run_live(&mut ctx, "hypergraph-live-histories", Bounds { hyper_only: true, iface: 0, ..bl }, if quick { 4 } else { 5 });
    let meta = Meta {
        rule: "breadth-first search from the empty diagram over every builder call with every argument inside the boundary: new_node, new_edge, new_operation, add_edge_source/target, unify, quotient, delete_nodes / delete_edges (id lists of length <=2 over 0..=count: valid, duplicate and one out-of-range id), map_nodes / with_nodes, map_edges / with_edges (right and wrong length), pushes onto the public interface vectors; on lax::OpenHypergraph and on lax::Hypergraph (where the deletion witness is observable); states deduplicated on exact equality; every transition compares the return value and every public field with the plain list model; at every reached state the serde_json round trip and the documented JSON shape are checked; all histories up to a fixed length are additionally replayed on one live object cloned at branch points".into(),
        bounds: "<=3 nodes, <=1 (quick) / 2 hyperedges of arity <=2+1, <=1-2 pending pairs, interfaces <=1, 2 node labels, 2 edge labels; live histories of length 4 (quick) / 5 on <=2 nodes".into(),
        assumptions: vec!["nothing is demanded of the diagram after a rejected (panicking) deletion".into(), "u8 labels".into()],
        explanation: "explicit-state model checking of the implementation: state = all public fields; transition = one real method call on a rebuilt real object; the search runs to its fixed point inside the boundary (or to the stated cap)".into(),
    };
    std::process::exit(ctx.finish(meta));
}
