use ohmc::onvec::B;
use ohmc::props::c18::*;
use ohmc_core::explore::*;
use ohmc_core::uni::*;

fn main() {
    let mut ctx = Ctx::from_args("C18");
    let quick = ctx.quick();
    // validation with well-typed maps: all (G, H, w, x)
    let (sg, sh) = if quick { (Spec::hyper(2, 1, 2, 2, 2), Spec::hyper(2, 2, 2, 2, 1)) } else { (Spec::hyper(2, 1, 2, 2, 2), Spec::hyper(2, 2, 2, 2, 2)) };
    let (ug, uh) = (sg.universe().all_open(), sh.universe().all_open());
    let nh = uh.len() as u64;
    ctx.run_slice(Slice::new(format!("typed-maps[G {} x H {}]", sg.name(), sh.name()), ug.len() as u64 * nh, |i, loc| check_all_maps::<B>(&ug[(i / nh) as usize], &uh[(i % nh) as usize], false, loc)));
    // validation with mistyped maps on a smaller universe
    let (sg2, sh2) = if quick { (Spec::hyper(2, 1, 1, 1, 1), Spec::hyper(2, 1, 1, 2, 1)) } else { (Spec::hyper(2, 1, 1, 2, 2), Spec::hyper(2, 2, 1, 2, 2)) };
    let (ug2, uh2) = (sg2.universe().all_open(), sh2.universe().all_open());
    let nh2 = uh2.len() as u64;
    ctx.run_slice(Slice::new(format!("mistyped-maps[G {} x H {}]", sg2.name(), sh2.name()), ug2.len() as u64 * nh2, |i, loc| check_all_maps::<B>(&ug2[(i / nh2) as usize], &uh2[(i % nh2) as usize], true, loc)).heavy());
    // arity shifts: 3 nodes, exactly 2 hyperedges with sources only
    let sa = Spec { n_min: 3, n_max: 3, e_min: 2, e_max: 2, ks: 2, kt: 0, lw: 1, lx: 1, a: 0, b: 0, q: 0 };
    let ua = sa.universe().all_open();
    let na = ua.len() as u64;
    let cap = na * na;
    ctx.run_slice(Slice::new(format!("arity-shift[{}^2 first {}]", sa.name(), cap), cap, |i, loc| check_all_maps::<B>(&ua[(i / na) as usize], &ua[(i % na) as usize], false, loc)).heavy());
    // convexity: every sub-hypergraph inclusion
    let specs = if quick { vec![Spec::hyper(3, 2, 2, 1, 1)] } else { vec![Spec::hyper(3, 3, 2, 1, 1), Spec { n_min: 4, ..Spec::hyper(4, 3, 1, 1, 1) }, Spec { n_min: 4, e_min: 4, ..Spec::hyper(4, 4, 1, 1, 1) }] };
    for s in specs {
        let u = s.universe();
        ctx.run_slice(Slice::new(format!("subgraphs[{}]", s.name()), u.count(), |i, loc| check_subgraphs::<B>(&u.get_open(i), loc)));
    }
    // sub-hypergraphs of structured larger hosts, and unary hosts with three hyperedges
    let kq = if quick { 3 } else { 4 };
    let st = ohmc::props::structured::shapes(kq);
    ctx.run_slice(Slice::new(format!("subgraphs-of-structured-hosts[sizes 1..{}: {} hosts]", kq, st.len()), st.len() as u64, |i, loc| check_subgraphs::<B>(&st[i as usize].1, loc)).heavy());
    // large hosts (sizes 33 .. 129): a fixed menu of sub-hypergraphs (halves, alternating, all but one, ...)
    let sizes: Vec<usize> = if quick { vec![33, 65] } else { vec![33, 64, 65, 129] };
    let big = ohmc::props::structured::shapes_at_labelled(&sizes, false);
    ctx.run_slice(Slice::new(format!("selected-subgraphs-of-large-hosts[sizes {:?}: {} hosts x 32 inclusions]", sizes, big.len()), big.len() as u64, |i, loc| check_selected_subgraphs::<B>(&big[i as usize].1, loc)).heavy());
    // four hyperedges with every profile of source and target arities in {0,1,2}^4 x {0,1,2}^4 on three nodes (the incidences
    // follow a fixed pattern): the fixed menu of inclusions, identity included
    ctx.run_slice(Slice::new("selected-subgraphs-of-arity-profile-hosts[4 hyperedges, arities {0,1,2}^8]", 6561, |i, loc| {
        let mut r = i;
        let mut edges = vec![];
        for e in 0..4usize {
            let (a, b) = ((r % 3) as usize, ((r / 3) % 3) as usize);
            r /= 9;
            edges.push(ohmc_core::plain::PEdge { label: 0u8, src: (0..a).map(|k| (e + k) % 3).collect(), tgt: (0..b).map(|k| (e + 2 * k + 1) % 3).collect() });
        }
        let h = ohmc_core::plain::POpen::<u8, u8> { nodes: vec![0; 3], edges, s: vec![], t: vec![] };
        check_selected_subgraphs::<B>(&h, loc)
    }).heavy());
    let s3 = Spec { e_min: 3, ..Spec::hyper(3, 3, 1, 1, 1) };
    let u3 = s3.universe();
    ctx.run_slice(Slice::new(format!("subgraphs[{}]", s3.name()), u3.count(), |i, loc| check_subgraphs::<B>(&u3.get_open(i), loc)));
    // discrete hosts with up to 12 nodes: every map of <=2 nodes into them (injectivity test at larger codomains)
    ctx.run_slice(Slice::new("monomorphisms-into-larger-hosts[<=2 nodes into <=12]", 13, |i, loc| {
        let n = i as usize;
        let h = ohmc_core::plain::POpen::<u8, u8> { nodes: vec![0; n], edges: vec![], s: vec![], t: vec![] };
        for gn in 0..=2usize {
            let g = ohmc_core::plain::POpen::<u8, u8> { nodes: vec![0; gn], edges: vec![], s: vec![], t: vec![] };
            for w in ohmc_core::uni::tables(gn, n) {
                loc.more_cases(1);
                check_arrow::<B>(&g, &h, (&w, n), (&[], 0), loc);
            }
        }
    }).heavy());
    let meta = Meta {
        rule: "all pairs (G, H) of the listed universes with ALL maps w, x between their node and edge sets (natural or not); on a smaller universe also all maps whose domain or codomain is off by one (mistyped); a slice of 3-node / 2-edge hypergraphs where arities can shift between edges; for convexity every sub-hypergraph (edge subset x node superset of its incidences) of every hypergraph with the sorted and the reversed inclusion; acceptance must coincide with the definition, a rejection must name a condition that is really false, is_monomorphism and is_convex_subgraph are compared on every accepted arrow; both build profiles; plus every sub-hypergraph of structured larger hosts (chains, cycles with tails, diamonds, ... up to size parameter 3-4), of all unary hosts with three hyperedges, and every map of <=2 nodes into discrete hosts of up to 12 nodes".into(),
        bounds: "G, H: <=2 nodes, <=1-2 hyperedges, arity <=2, 2 node labels, 1-2 edge labels; convexity: <=3 nodes, <=2-3 hyperedges (thorough: 4 nodes, up to 4 unary hyperedges)".into(),
        assumptions: vec!["which failing condition is named first is not demanded".into()],
        explanation: "explicit enumeration of HypergraphArrow::new / is_monomorphism / is_convex_subgraph against brute-force definitions (path search over (node, used-outside-edge) states)".into(),
    };
    std::process::exit(ctx.finish(meta));
}
