use ohmc::onvec::B;
use ohmc::props::c01::check_pair;
use ohmc_core::explore::*;
use ohmc_core::uni::*;

fn main() {
    let mut ctx = Ctx::from_args("C01");
    let quick = ctx.quick();
    // glue-deep: edge-free diagrams with long boundaries (identification chains)
    let l = Spec { n_min: 0, n_max: 3, e_min: 0, e_max: 0, ks: 0, kt: 0, lw: 2, lx: 1, a: 1, b: 3, q: 0 }.universe().all_open();
    let r = Spec { n_min: 0, n_max: 3, e_min: 0, e_max: 0, ks: 0, kt: 0, lw: 2, lx: 1, a: 3, b: 1, q: 0 }.universe().all_open();
    let (nl, nr) = (l.len() as u64, r.len() as u64);
    ctx.run_slice(Slice::new(format!("glue-deep[{}x{}]", nl, nr), nl * nr, |i, loc| {
        check_pair::<B>(&l[(i / nr) as usize], &r[(i % nr) as usize], loc)
    }));
    // glue-edges: diagrams with a hyperedge, all pairs (matching and mismatching types)
    let (sl, sr) = if quick { (Spec::open(2, 1, 2, 2, 1, 1, 2), Spec::open(2, 1, 2, 2, 1, 2, 2)) } else { (Spec::open(2, 1, 2, 2, 2, 2, 2), Spec::open(2, 1, 2, 2, 2, 2, 2)) };
    let (ul, ur) = (sl.universe().all_open(), sr.universe().all_open());
    let n = ur.len() as u64;
    ctx.run_slice(Slice::new(format!("glue-edges[{} x {}]", sl.name(), sr.name()), ul.len() as u64 * n, |i, loc| {
        check_pair::<B>(&ul[(i / n) as usize], &ur[(i % n) as usize], loc)
    }));
    // other label types: zero-sized labels (types differ only in length) and strings; all pairs of a smaller universe
    let (ulo, uro) = (Spec::open(2, 1, 1, 2, 2, 1, 2).universe().all_open(), Spec::open(2, 1, 1, 2, 2, 2, 1).universe().all_open());
    let no = uro.len() as u64;
    ctx.run_slice(Slice::new(format!("glue-edges-unit-and-string-labels[{} x {} diagrams]", ulo.len(), no), ulo.len() as u64 * no, |i, loc| {
        let (f, g) = (&ulo[(i / no) as usize], &uro[(i % no) as usize]);
        ohmc::props::c01::check_pair_over::<B, (), ()>(&f.map_labels(|_| (), |_| ()), &g.map_labels(|_| (), |_| ()), loc);
        ohmc::props::c01::check_pair_over::<B, String, String>(&f.map_labels(|o| format!("w{}", o), |a| format!("x{}", 9 - a)), &g.map_labels(|o| format!("w{}", o), |a| format!("x{}", 9 - a)), loc);
    }));
    if !quick {
        let l = Spec::open(3, 1, 2, 1, 1, 1, 2).universe().all_open();
        let r = Spec::open(3, 1, 2, 1, 1, 2, 1).universe().all_open();
        let (nl, nr) = (l.len() as u64, r.len() as u64);
        ctx.run_slice(Slice::new(format!("glue-3[{}x{}]", nl, nr), nl * nr, |i, loc| {
            check_pair::<B>(&l[(i / nr) as usize], &r[(i % nr) as usize], loc)
        }));
    }
    if !quick {
        // deeper identification chains: four nodes, boundaries up to 4 (one label) and up to 3 (two labels)
        for (lw, bmax) in [(1usize, 4usize), (2, 3)] {
            let l = Spec { n_min: 0, n_max: 4, e_min: 0, e_max: 0, ks: 0, kt: 0, lw, lx: 1, a: 1, b: bmax, q: 0 }.universe().all_open();
            let r = Spec { n_min: 0, n_max: 4, e_min: 0, e_max: 0, ks: 0, kt: 0, lw, lx: 1, a: bmax, b: 1, q: 0 }.universe().all_open();
            let (nl, nr) = (l.len() as u64, r.len() as u64);
            ctx.run_slice(Slice::new(format!("glue-deep-4[{}x{}; {} labels, boundary <={}]", nl, nr, lw, bmax), nl * nr, |i, loc| {
                check_pair::<B>(&l[(i / nr) as usize], &r[(i % nr) as usize], loc)
            }));
        }
    }
    // the lax representation composes to the same gluing (operands may carry pending unifications of their own)
    // discrete operands on <=3 nodes with BOTH interfaces up to length 3 (one label): identity-shaped non-identities,
    // legs that pass a checksum of a permutation, ... on either side
    let disc = Spec { n_min: 0, n_max: 3, e_min: 0, e_max: 0, ks: 0, kt: 0, lw: 1, lx: 1, a: 3, b: 3, q: 0 }.universe().all_open();
    let nd = disc.len() as u64;
    ctx.run_slice(Slice::new(format!("glue-discrete[{}^2 edge-free diagrams on <=3 nodes, interfaces <=3 on both sides]", nd), nd * nd, |i, loc| check_pair::<B>(&disc[(i / nd) as usize], &disc[(i % nd) as usize], loc)));
    let (lsl, lsr) = if quick { (Spec::lax(2, 1, 1, 1, 1, 2, 2, 1), Spec::lax(2, 1, 1, 1, 1, 2, 2, 1)) } else { (Spec::lax(2, 1, 1, 2, 1, 2, 2, 1), Spec::lax(2, 1, 1, 2, 1, 2, 2, 1)) };
    let ll: Vec<_> = lsl.universe().all().into_iter().filter(|l| l.label_consistent()).collect();
    let lr: Vec<_> = lsr.universe().all().into_iter().filter(|l| l.label_consistent()).collect();
    let nlr = lr.len() as u64;
    ctx.run_slice(Slice::new(format!("lax-compose[{} of {} x {} of {} (label-consistent)]", ll.len(), lsl.name(), nlr, lsr.name()), ll.len() as u64 * nlr, |i, loc| {
        ohmc::props::c10::check_pair(&ll[(i / nlr) as usize], &lr[(i % nlr) as usize], loc)
    }));
    // structured gluing of many nodes into one class (long zig-zag chains, wire orders that grow deep union-find trees)
    let gp = ohmc::props::structured::gluing_pairs(if quick { 12 } else { 24 }, if quick { 7 } else { 8 });
    ctx.run_slice(Slice::new(format!("structured-gluing[{} pairs, up to {} nodes]", gp.len(), gp.iter().map(|p| p.1.nodes.len() + p.2.nodes.len()).max().unwrap_or(0)), gp.len() as u64, |i, loc| check_pair::<B>(&gp[i as usize].1, &gp[i as usize].2, loc)).heavy());
    // large operands (sizes 33 .. 129): every ordered pair of the shape families (composable or not)
    let sizes: Vec<usize> = if quick { vec![33, 65] } else { vec![33, 64, 65, 129] };
    let big: Vec<_> = ohmc::props::structured::shapes_at_labelled(&sizes, false).into_iter().map(|x| x.1).collect();
    let nb = big.len() as u64;
    ctx.run_slice(Slice::new(format!("structured-pairs-large[sizes {:?}: {}^2]", sizes, nb), nb * nb, |i, loc| check_pair::<B>(&big[(i / nb) as usize], &big[(i % nb) as usize], loc)));
    let meta = Meta {
        rule: "every ordered pair (f,g) of the listed universes of well-formed open hypergraphs over u8 labels (types matching and mismatching); a case is non-trivial when the pair is composable and some identification class has >=2 members with a hyperedge present, or >=3 members; plus structured gluing pairs of up to 64-256 nodes that identify many nodes into one class (zig-zag chains, two interleaved chains that must stay apart, wire orders that grow union-by-rank trees of depth d, two such trees tied through the deepest node) in three wire orders".into(),
        bounds: "glue-deep: <=3 nodes, no edges, boundaries <=3 (repeats allowed), 2 node labels; glue-edges: <=2 nodes, <=1 hyperedge of arity <=2, 2 node labels, boundaries <=2 (quick: left operand input boundary <=1, one edge label); glue-3 (thorough): <=3 nodes, one node label".into(),
        assumptions: vec!["small-scope: sizes above the bounds are not explored".into(), "labels are u8 values from a 2-letter alphabet".into(), "Vec backend".into()],
        explanation: "explicit-state exploration of the real Arrow::compose / >> on every pair; oracle = isomorphism (interfaces pinned) with an independently computed gluing on the plain model; every execution is an implementation execution".into(),
    };
    std::process::exit(ctx.finish(meta));
}
