//! tool: print the size of universes. usage: speccount n_min n_max e_min e_max ks kt lw lx a b q  (repeatable, 11 numbers each)
use ohmc_core::uni::*;
fn main() {
    let v: Vec<usize> = std::env::args().skip(1).map(|x| x.parse().unwrap()).collect();
    for c in v.chunks(11) {
        let s = Spec { n_min: c[0], n_max: c[1], e_min: c[2], e_max: c[3], ks: c[4], kt: c[5], lw: c[6], lx: c[7], a: c[8], b: c[9], q: c[10] };
        println!("{} = {}", s.name(), s.universe().count());
    }
}
