use ohmc::onvec::B;
use ohmc::props::c16::*;
use ohmc_core::explore::*;

fn main() {
    ohmc::props::deep::maybe_child::<B>("C16");
    let mut ctx = Ctx::from_args("C16");
    let quick = ctx.quick();
    let us: Vec<Progs> = if quick {
        vec![Progs::new(&[2, 3, 4, 6, 7], 3, 2, 2, 2), Progs::new(&[2, 3, 4], 3, 3, 1, 1), Progs::new(&[0, 1, 5, 8], 2, 2, 2, 2)]
    } else {
        vec![
            Progs::new(&[0, 1, 2, 3, 4, 5, 6, 7, 8], 3, 2, 2, 2),
            Progs::new(&[2, 3, 4, 6, 7], 3, 3, 2, 1),
            Progs::new(&[2, 3, 4], 4, 3, 1, 1),
            Progs::new(&[2, 3, 6], 3, 4, 1, 1),
            Progs::new(&[2, 3, 4, 6, 7], 4, 3, 1, 1),
            Progs::new(&[0, 1, 2, 3, 4, 5, 6, 7, 8], 3, 3, 1, 1),
        ]
    };
    for u in &us {
        ctx.run_slice(Slice::new(format!("eval[{}]", u.name()), u.count(), move |i, loc| check::<B>(&u.get(i), loc)));
    }
    // a user interpreter that splits its arguments with IndexedCoproduct::iter()
    let ui = Progs::new(&[2, 3, 4, 6, 7], 3, 2, 1, 1);
    ctx.run_slice(Slice::new(format!("eval-iter-interpreter[{}]", ui.name()), ui.count(), |i, loc| check_with_iter_interpreter(&ui.get(i), loc)));
    let sti = ohmc::props::structured::programs(5);
    ctx.run_slice(Slice::new(format!("eval-iter-interpreter-structured[{} programs]", sti.len()), sti.len() as u64, |i, loc| check_with_iter_interpreter(&sti[i as usize].1, loc)));
    let kmax = if quick { 6 } else { 8 };
    let st = ohmc::props::structured::programs(kmax);
    ctx.run_slice(Slice::new(format!("structured-programs[sizes 1..{}: {} programs]", kmax, st.len()), st.len() as u64, |i, loc| check::<B>(&st[i as usize].1, loc)));
    // the same program families at large size parameters (size thresholds, long chains, wide layers)
    let sizes: Vec<usize> = if quick { vec![33, 64, 65, 129] } else { vec![33, 64, 65, 129, 255, 256, 257, 513] };
    let big = ohmc::props::structured::programs_at(&sizes, false);
    ctx.run_slice(Slice::new(format!("structured-programs-large[sizes {:?}: {} programs, 3 patterned input vectors each]", sizes, big.len()), big.len() as u64, |i, loc| check_large::<B>(&big[i as usize].1, loc)));
    // deep diagrams (a dependency chain of tens of thousands of operations), each in a child process on a 2 MiB stack:
    // the call has to come back, and with the answer known in closed form
    let deep_sizes: Vec<usize> = if ctx.quick() { vec![30_000] } else { vec![30_000, 100_000] };
    let deep_cases: Vec<(&str, usize)> = ohmc::props::deep::FAMILIES.iter().flat_map(|f| deep_sizes.iter().map(move |&k| (*f, k))).collect();
    ctx.run_slice(Slice::new(format!("deep-chains[{:?} operations: chain, chain listed backwards, chain into a 2-cycle, star; one child process each]", deep_sizes), deep_cases.len() as u64, |i, loc| ohmc::props::deep::check_in_child(deep_cases[i as usize].0, deep_cases[i as usize].1, loc)).heavy());
    let meta = Meta {
        rule: "every diagram over the test signature (add, mul, sub 2->1; neg 1->1; copy 1->2; swapinc 2->2; const 0->1; discard 1->0; and 2->1, arities fixed by the label) within the bounds, in every numbering (the universe is closed under renumbering); classified by the reference into cyclic (must be refused), functional (acyclic, single writer, every read node written: outputs and the multiset of interpreter calls are compared for every input vector over {0,1,2,3}) and other acyclic (must return a result); run under the checked and the release-like profile; plus structured families of larger diagrams, enumerated completely for every size parameter up to the stated bound and in five numberings (fan-out/fan-in, k parallel operations, chains, stars, cycles with tails, diamonds, multiplicity k, operations whose predecessors sit at depths j and k of a chain, one node read k times)".into(),
        bounds: "quick: <=3 nodes, <=2 operations (5-letter signature, interfaces <=2), <=3 operations (3-letter signature, interfaces <=1); thorough: full signature with <=2 operations (interfaces <=2) and <=3 operations (interfaces <=1), the 5-letter signature with <=3 operations on <=4 nodes, <=3-4 operations on <=3-4 nodes for sub-signatures".into(),
        assumptions: vec!["values are u64 with wrapping arithmetic".into(), "values of never-written nodes are not demanded (such programs only have to return a result)".into()],
        explanation: "explicit enumeration of programs x inputs against a recursive, numbering-independent reference interpreter; the user callback is instrumented".into(),
    };
    std::process::exit(ctx.finish(meta));
}
