use ohmc::onvec::C08;
use ohmc_core::explore::*;

fn main() {
    let mut ctx = Ctx::from_args("C08");
    let c = C08::new(ctx.quick());
    for (fam, count) in c.families.clone() {
        let cref = &c;
        ctx.run_slice(Slice::new(fam, count, move |i, loc| cref.run(fam, i, loc)));
    }
    let cref = &c;
    ctx.run_slice(Slice::new("vec-iterators", c.singles.len() as u64, move |i, loc| ohmc::props::c08v::check_vec_iters(&cref.singles[i as usize], loc)));
    // the borrowing iterators on arrays with up to 8 segments, and the length reports of every iterator on
    // arrays with 1023..4097 segments
    let nlong: u64 = (0..=8u32).map(|m| 3u64.pow(m)).sum();
    ctx.run_slice(Slice::new("vec-iterators-long[<=8 segments]", nlong, |i, loc| {
        let opts: [Vec<usize>; 3] = [vec![], vec![0], vec![1, 0]];
        let mut r = i;
        let mut m = 0u32;
        while r >= 3u64.pow(m) {
            r -= 3u64.pow(m);
            m += 1;
        }
        let mut x: Vec<Vec<usize>> = vec![];
        for _ in 0..m {
            x.push(opts[(r % 3) as usize].clone());
            r /= 3;
        }
        ohmc::props::c08v::check_vec_iters(&(x, 2), loc)
    }));
    ctx.run_slice(Slice::new("iterators-many-segments[255..4097 segments]", 8 * 3, |i, loc| ohmc::props::c08v::check_many_segments([255usize, 256, 257, 1023, 1024, 1025, 2049, 4097][(i / 3) as usize], (i % 3) as usize, loc)));
    let meta = Meta {
        rule: "all segmented arrays with <=3 segments (thorough: 4) of size <=2 over a codomain <=3, of finite functions and of label arrays (thorough, one-argument operations and iterators: <=5 segments of size <=3 over a codomain <=2, <=4 segments of size <=2 over a codomain of 3); all pairs of them (coproduct, tensor, flatmap, flatmap_sources where composable); every re-indexing map of length <=4 into n-1, n, n+1 segments (n <= 4; quick: one-argument operations also on all 4-segment arrays over codomains <= 2); every value map; raw (sizes, declared codomain, value length) triples for the checked constructors; iterator histories: every call sequence over {next, len, size_hint} of length n+2".into(),
        bounds: "<=3-4 segments, segment size <=2, value codomain <=3 (thorough one-argument families: <=5 segments of size <=3); raw sizes of length <=3 with entries <=3".into(),
        assumptions: vec!["list-of-lists semantics decoded from the raw public fields, with the size invariant sources.target = sum+1 = |values|+1 re-checked on every result".into()],
        explanation: "explicit enumeration of the IndexedCoproduct / Operations API and exploration of the iterator state machines against a cursor model".into(),
    };
    std::process::exit(ctx.finish(meta));
}
