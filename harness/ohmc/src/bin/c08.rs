use ohmc::onvec::C08;
use ohmc_core::explore::*;

fn main() {
    let mut ctx = Ctx::from_args("C08");
    let c = C08::new(ctx.quick());
    for (fam, count) in c.families.clone() {
        let cref = &c;
        ctx.run_slice(Slice::new(fam, count, move |i, loc| cref.run(fam, i, loc)));
    }
    let cref = &c;
    ctx.run_slice(Slice::new("vec-iterators", c.segs.len() as u64, move |i, loc| ohmc::props::c08v::check_vec_iters(&cref.segs[i as usize], loc)));
    let meta = Meta {
        rule: "all segmented arrays with <=3 segments (thorough: 4) of size <=2 over a codomain <=3, of finite functions and of label arrays; all pairs of them (coproduct, tensor, flatmap, flatmap_sources where composable); every re-indexing map of length <=3 into n-1, n, n+1 segments; every value map; raw (sizes, declared codomain, value length) triples for the checked constructors; iterator histories: every call sequence over {next, len, size_hint} of length n+2".into(),
        bounds: "<=3-4 segments, segment size <=2, value codomain <=3; raw sizes of length <=3 with entries <=3".into(),
        assumptions: vec!["list-of-lists semantics decoded from the raw public fields, with the size invariant sources.target = sum+1 = |values|+1 re-checked on every result".into()],
        explanation: "explicit enumeration of the IndexedCoproduct / Operations API and exploration of the iterator state machines against a cursor model".into(),
    };
    std::process::exit(ctx.finish(meta));
}
