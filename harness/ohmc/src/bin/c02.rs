use ohmc::onvec::B;
use ohmc::props::c02::*;
use ohmc_core::explore::*;
use ohmc_core::uni::*;

fn main() {
    let mut ctx = Ctx::from_args("C02");
    let quick = ctx.quick();
    // strict pairs
    let spec = if quick { Spec::open(2, 1, 2, 2, 2, 1, 1) } else { Spec::open(2, 1, 2, 2, 2, 2, 2) };
    let u = spec.universe().all_open();
    let n = u.len() as u64;
    ctx.run_slice(Slice::new(format!("strict-pairs[{}^2]", spec.name()), n * n, |i, loc| check_pair::<B>(&u[(i / n) as usize], &u[(i % n) as usize], loc)));
    // strict unit
    let specsu = if quick { Spec::family_3x2(1, 0, false) } else { vec![Spec::open(3, 2, 2, 2, 2, 2, 2)] };
    for specu in specsu {
        let uu = specu.universe();
        ctx.run_slice(Slice::new(format!("strict-unit[{}]", specu.name()), uu.count(), |i, loc| check_unit::<B>(&uu.get_open(i), loc)));
    }
    // strict triples
    let spec3 = if quick { Spec::open(2, 1, 1, 1, 2, 1, 1) } else { Spec::open(2, 1, 1, 2, 2, 1, 1) };
    let u3 = spec3.universe().all_open();
    let n3 = u3.len() as u64;
    ctx.run_slice(Slice::new(format!("strict-triples[{}^3]", spec3.name()), n3 * n3 * n3, |i, loc| {
        check_assoc::<B>(&u3[(i / (n3 * n3)) as usize], &u3[((i / n3) % n3) as usize], &u3[(i % n3) as usize], loc)
    }));
    // lax pairs with pending unifications
    let lspec = if quick { Spec::lax(2, 1, 1, 2, 2, 1, 1, 1) } else { Spec::lax(2, 1, 1, 2, 2, 1, 1, 2) };
    let lu = lspec.universe().all();
    let ln = lu.len() as u64;
    ctx.run_slice(Slice::new(format!("lax-pairs[{}^2]", lspec.name()), ln * ln, |i, loc| check_lax_pair(&lu[(i / ln) as usize], &lu[(i % ln) as usize], loc)));
    let lfull = Spec::lax(3, 2, 1, 2, 2, 1, 1, 2);
    let lspecsu = if quick { vec![Spec { e_max: 1, ..lfull.clone() }, Spec { n_max: 2, ..lfull.clone() }, Spec { n_min: 3, e_min: 2, lw: 1, lx: 1, ..lfull.clone() }] } else { vec![lfull.clone()] };
    for lspecu in lspecsu {
        let luu = lspecu.universe();
        ctx.run_slice(Slice::new(format!("lax-unit[{}]", lspecu.name()), luu.count(), |i, loc| check_lax_unit(&luu.get(i), loc)));
    }
    let lspec3 = if quick { Spec::lax(2, 1, 1, 1, 1, 1, 0, 1) } else { Spec::lax(2, 1, 1, 1, 1, 1, 1, 1) };
    let lu3 = lspec3.universe().all();
    let ln3 = lu3.len() as u64;
    ctx.run_slice(Slice::new(format!("lax-triples[{}^3]", lspec3.name()), ln3 * ln3 * ln3, |i, loc| {
        check_lax_assoc(&lu3[(i / (ln3 * ln3)) as usize], &lu3[((i / ln3) % ln3) as usize], &lu3[(i % ln3) as usize], loc)
    }));
    // larger operands: all pairs of structured diagrams (up to ~8 nodes, 5 hyperedges, arity 3), strict and lax
    // (the lax right operand carries a chain of pending unifications)
    let st: Vec<_> = ohmc::props::structured::shapes(3).into_iter().map(|x| x.1).collect();
    let ns = st.len() as u64;
    ctx.run_slice(Slice::new(format!("structured-pairs[{}^2, strict and lax]", ns), ns * ns, |i, loc| {
        let (f, g) = (&st[(i / ns) as usize], &st[(i % ns) as usize]);
        check_pair::<B>(f, g, loc);
        let lf = ohmc_core::plain::PLax { open: f.clone(), quot: (1..f.nodes.len()).map(|v| (v, v - 1)).take(2).collect() };
        let lg = ohmc_core::plain::PLax { open: g.clone(), quot: (1..g.nodes.len()).map(|v| (v - 1, v)).collect() };
        check_lax_pair(&lf, &lg, loc);
    }));
    let st3: Vec<_> = ohmc::props::structured::shapes(2).into_iter().map(|x| x.1).step_by(3).collect();
    let n3 = st3.len() as u64;
    ctx.run_slice(Slice::new(format!("structured-triples[{}^3]", n3), n3 * n3 * n3, |i, loc| {
        check_assoc::<B>(&st3[(i / (n3 * n3)) as usize], &st3[((i / n3) % n3) as usize], &st3[(i % n3) as usize], loc)
    }));
    // large operands (sizes 33 .. 129): every pair of one numbering of each shape family, strict and lax
    let sizes: Vec<usize> = if ctx.quick() { vec![33, 65] } else { vec![33, 64, 65, 129] };
    let big: Vec<_> = ohmc::props::structured::shapes_at_labelled(&sizes, false).into_iter().map(|x| x.1).step_by(2).collect();
    let nb = big.len() as u64;
    ctx.run_slice(Slice::new(format!("structured-pairs-large[sizes {:?}: {}^2, strict and lax]", sizes, nb), nb * nb, |i, loc| {
        let (f, g) = (&big[(i / nb) as usize], &big[(i % nb) as usize]);
        check_pair::<B>(f, g, loc);
        let lf = ohmc_core::plain::PLax { open: f.clone(), quot: (1..f.nodes.len()).map(|v| (v, v - 1)).take(2).collect() };
        let lg = ohmc_core::plain::PLax { open: g.clone(), quot: (1..g.nodes.len()).map(|v| (v - 1, v)).collect() };
        check_lax_pair(&lf, &lg, loc);
    }));
    // many pending unifications (repeated and distinct), around powers of two: all pairs and the unit laws
    let mut many: Vec<ohmc_core::plain::PLax<u8, u8>> = vec![ohmc_core::plain::PLax::strict(ohmc_core::plain::POpen::empty())];
    for k in [1usize, 2, 3, 4, 7, 8, 9, 15, 16, 17, 18, 31, 32, 33, 64, 65] {
        many.push(ohmc_core::plain::PLax { open: ohmc_core::plain::POpen { nodes: vec![0, 0], edges: vec![], s: vec![0], t: vec![1] }, quot: vec![(0, 1); k] });
        many.push(ohmc_core::plain::PLax { open: ohmc_core::plain::POpen { nodes: vec![0; 3], edges: vec![], s: vec![2], t: vec![] }, quot: (0..k).map(|i| (i % 3, (i + 1) % 3)).collect() });
    }
    let nm = many.len() as u64;
    ctx.run_slice(Slice::new(format!("lax-many-pending-pairs[{}^2]", nm), nm * nm, |i, loc| {
        check_lax_pair(&many[(i / nm) as usize], &many[(i % nm) as usize], loc);
        if i % nm == 0 {
            check_lax_unit(&many[(i / nm) as usize], loc);
        }
    }));
    // every list of up to 3 (thorough: 4) pending pairs on three equally labelled nodes, as the right and as the left
    // operand of four small diagrams, and the unit laws: the columns of the pending lists are shifted entry by entry
    let qs = Spec { n_min: 3, n_max: 3, e_min: 0, e_max: 0, ks: 0, kt: 0, lw: 1, lx: 1, a: 0, b: 0, q: if quick { 3 } else { 4 } };
    let qu = qs.universe();
    let small: Vec<ohmc_core::plain::PLax<u8, u8>> = vec![
        ohmc_core::plain::PLax::strict(ohmc_core::plain::POpen::empty()),
        ohmc_core::plain::PLax { open: ohmc_core::plain::POpen { nodes: vec![0], edges: vec![], s: vec![0], t: vec![] }, quot: vec![] },
        ohmc_core::plain::PLax { open: ohmc_core::plain::POpen { nodes: vec![0, 0], edges: vec![], s: vec![], t: vec![1] }, quot: vec![(1, 0)] },
        ohmc_core::plain::PLax { open: ohmc_core::plain::POpen { nodes: vec![0, 0, 0], edges: vec![], s: vec![], t: vec![] }, quot: vec![(0, 2), (0, 2), (1, 2)] },
    ];
    ctx.run_slice(Slice::new(format!("lax-pending-lists[{} x 4 small diagrams, both orders]", qs.name()), qu.count(), |i, loc| {
        let g = qu.get(i);
        for f in &small {
            loc.more_cases(2);
            check_lax_pair(f, &g, loc);
            check_lax_pair(&g, f, loc);
        }
        check_lax_unit(&g, loc);
    }));
    let meta = Meta {
        rule: "all pairs / triples / single diagrams of the listed universes (strict, and lax with pending unification pairs); exact comparison of the decoded result (plus deep well-formedness of every raw field) with the juxtaposition computed on the plain model; non-trivial = both operands non-empty and the right operand has something to shift".into(),
        bounds: "strict pairs: <=2 nodes, <=1 edge, arity <=2, 2+2 labels, interfaces <=1 (quick) / <=2 (thorough); unit: <=3 nodes, <=2 edges; triples: <=2 nodes, <=1 edge of arity <=1; lax: same with <=1-2 pending pairs".into(),
        assumptions: vec!["small-scope bound".into(), "Vec backend (strict part)".into()],
        explanation: "explicit enumeration of the real Monoidal::tensor / `|` (strict and lax); the oracle is equality of data, not isomorphism; associativity and unit laws are compared as data".into(),
    };
    std::process::exit(ctx.finish(meta));
}
