use ohmc::onvec::B;
use ohmc::props::c04::*;
use ohmc_core::explore::*;
use ohmc_core::plain::*;
use ohmc_core::uni::*;

fn main() {
    let mut ctx = Ctx::from_args("C04");
    let quick = ctx.quick();
    // dagger on every diagram
    let specs = if quick { vec![Spec::open(3, 1, 2, 2, 2, 2, 2)] } else { let mut v = Spec::family_3x2(2, 0, true); v.push(Spec { n_min: 3, e_min: 2, lx: 1, ..Spec::open(3, 2, 2, 2, 2, 2, 2) }); v };
    for spec in specs {
        let u = spec.universe();
        ctx.run_slice(Slice::new(format!("dagger[{}]", spec.name()), u.count(), |i, loc| check_dagger::<B>(&u.get_open(i), loc)));
    }
    // dagger vs tensor / compose on all pairs
    let specp = if quick { Spec::open(2, 1, 2, 2, 1, 1, 2) } else { Spec::open(2, 1, 2, 2, 2, 2, 2) };
    let up = specp.universe().all_open();
    let np = up.len() as u64;
    ctx.run_slice(Slice::new(format!("dagger-pairs[{}^2]", specp.name()), np * np, |i, loc| check_dagger_pair::<B>(&up[(i / np) as usize], &up[(i % np) as usize], loc)));
    // spider acceptance: all (s: a -> m, t: b -> m', w of length n)
    let k = 3usize;
    let mut acc: Vec<(Vec<usize>, usize, Vec<usize>, usize, Vec<u8>)> = vec![];
    let amax = if quick { 2 } else { 3 };
    for sm in 0..=k {
        for s in lists(sm, amax) {
            for tm in 0..=k {
                for t in lists(tm, amax) {
                    for n in 0..=k {
                        for w in tables(n, 2) {
                            acc.push((s.clone(), sm, t.clone(), tm, w.iter().map(|&x| x as u8).collect()));
                        }
                    }
                }
            }
        }
    }
    ctx.run_slice(Slice::new(format!("spider-acceptance[legs<={} into <=3, |w|<=3]", amax), acc.len() as u64, |i, loc| {
        let c = &acc[i as usize];
        check_spider_acceptance::<B>(&c.0, c.1, &c.2, c.3, &c.4, loc)
    }));
    // fusion: all pairs of labelled cospans
    let sa = if quick { Spec { n_min: 0, n_max: 3, e_min: 0, e_max: 0, ks: 0, kt: 0, lw: 2, lx: 1, a: 2, b: 3, q: 0 } } else { Spec { n_min: 0, n_max: 3, e_min: 0, e_max: 0, ks: 0, kt: 0, lw: 2, lx: 1, a: 3, b: 3, q: 0 } };
    let sb = if quick { Spec { a: 3, b: 2, ..sa.clone() } } else { sa.clone() };
    let (ua, ub) = (sa.universe().all_open(), sb.universe().all_open());
    // only type-matching pairs are interesting for fusion; enumerate all and let the check sort them out
    let idx = ohmc::props::c03::by_source(&ub);
    ctx.run_slice(Slice::new(format!("fusion[{} x matching {}]", sa.name(), sb.name()), ua.len() as u64, |i, loc| {
            let a = &ua[i as usize];
            if let Some(js) = idx.get(&a.target_type()) {
                for &j in js {
                    loc.more_cases(1);
                    check_fusion::<B>(a, &ub[j], loc);
                }
            }
        }).heavy());
    // identities and symmetries are spiders
    let objs: Vec<Vec<u8>> = lists(2, 3).into_iter().map(|l| l.into_iter().map(|x| x as u8).collect()).collect();
    let no = objs.len() as u64;
    ctx.run_slice(Slice::new("id-twist-are-spiders[lists<=3 over 2 labels ^2]", no * no, |i, loc| check_id_twist_are_spiders::<B>(&objs[(i / no) as usize], &objs[(i % no) as usize], loc)));
    // lax dagger on diagrams with pending unifications
    let lspec = if quick { Spec::lax(2, 1, 2, 2, 2, 2, 2, 1) } else { Spec::lax(3, 1, 2, 2, 2, 2, 2, 2) };
    let lu = lspec.universe();
    ctx.run_slice(Slice::new(format!("lax-dagger[{}]", lspec.name()), lu.count(), |i, loc| check_lax_dagger(&lu.get(i), loc)));
    let _ = POpen::<u8, u8>::empty();
    // dagger laws and fusion on larger inputs: structured diagrams and the structured gluing pairs (long legs)
    let st: Vec<_> = ohmc::props::structured::shapes(4).into_iter().map(|x| x.1).collect();
    ctx.run_slice(Slice::new(format!("dagger-structured[{} diagrams]", st.len()), st.len() as u64, |i, loc| check_dagger::<B>(&st[i as usize], loc)));
    let st2: Vec<_> = ohmc::props::structured::shapes(2).into_iter().map(|x| x.1).collect();
    let n2 = st2.len() as u64;
    ctx.run_slice(Slice::new(format!("dagger-pairs-structured[{}^2]", n2), n2 * n2, |i, loc| check_dagger_pair::<B>(&st2[(i / n2) as usize], &st2[(i % n2) as usize], loc)));
    // every structured gluing pair with its hyperedges dropped: spider fusion concerns the legs only
    let mut gp: Vec<_> = ohmc::props::structured::gluing_pairs(8, 7).into_iter().map(|(n, mut f, mut g)| {
        f.edges.clear();
        g.edges.clear();
        (n, f, g)
    }).collect();
    gp.sort_by(|a, b| (&a.1, &a.2).cmp(&(&b.1, &b.2)));
    gp.dedup_by(|a, b| a.1 == b.1 && a.2 == b.2);
    ctx.run_slice(Slice::new(format!("fusion-long-legs[{} cospan pairs, up to {} nodes]", gp.len(), gp.iter().map(|p| p.1.nodes.len() + p.2.nodes.len()).max().unwrap_or(0)), gp.len() as u64, |i, loc| check_fusion::<B>(&gp[i as usize].1, &gp[i as usize].2, loc)).heavy());
    // dagger laws on large diagrams (sizes 33 .. 129)
    let sizes: Vec<usize> = if ctx.quick() { vec![33, 65] } else { vec![33, 64, 65, 129] };
    let big: Vec<_> = ohmc::props::structured::shapes_at_labelled(&sizes, false).into_iter().map(|x| x.1).collect();
    ctx.run_slice(Slice::new(format!("dagger-structured-large[sizes {:?}: {} diagrams]", sizes, big.len()), big.len() as u64, |i, loc| check_dagger::<B>(&big[i as usize], loc)));
    let big2: Vec<_> = big.iter().step_by(4).cloned().collect();
    let nb2 = big2.len() as u64;
    ctx.run_slice(Slice::new(format!("dagger-pairs-structured-large[{}^2]", nb2), nb2 * nb2, |i, loc| check_dagger_pair::<B>(&big2[(i / nb2) as usize], &big2[(i % nb2) as usize], loc)));
    let meta = Meta {
        rule: "every diagram (dagger: exact swap, involution), every pair (dagger vs tensor exactly, vs composition up to iso), every (leg, declared codomain, leg, declared codomain, node list) for the acceptance condition of spider/half_spider (strict inherent, strict trait, lax), every pair of type-matching labelled cospans for fusion (strict and lax), all pairs of object lists for identity/symmetry-as-spider".into(),
        bounds: "dagger: <=3 nodes, <=1-2 edges; pairs: <=2 nodes <=1 edge; legs of length <=2 (quick) / <=3 into codomains <=3, node lists <=3 over 2 labels; cospans: <=3 nodes, legs <=3".into(),
        assumptions: vec!["small-scope bound".into(), "Vec backend".into()],
        explanation: "explicit enumeration of the real dagger/spider/half_spider/compose; fusion is compared up to isomorphism with cospan composition on the plain model and must be discrete".into(),
    };
    std::process::exit(ctx.finish(meta));
}
