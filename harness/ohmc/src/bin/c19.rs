use ohmc::onvec::B;
use ohmc::props::c19::*;
use ohmc_core::explore::*;
use ohmc_core::uni::*;

fn main() {
    let mut ctx = Ctx::from_args("C19");
    let quick = ctx.quick();
    // every operator overload with every operand type combination, one application
    let p1 = programs(2, 1, true);
    ctx.run_slice(Slice::new(format!("one-application-all-operators[{} programs]", p1.len()), p1.len() as u64, |i, loc| check_program::<B>(&p1[i as usize], loc)));
    // multi-step programs with sharing, over a reduced operator set
    let pm = if quick { programs(1, 2, false) } else { programs(2, 2, false) };
    ctx.run_slice(Slice::new(format!("programs[<={} Var::new interleaved, <=2 applications: {}]", if quick { 1 } else { 2 }, pm.len()), pm.len() as u64, |i, loc| check_program::<B>(&pm[i as usize], loc)));
    if !quick {
        let p3 = programs_with(1, 3, false, 1);
        ctx.run_slice(Slice::new(format!("programs[<=1 Var::new, <=3 applications: {}]", p3.len()), p3.len() as u64, |i, loc| check_program::<B>(&p3[i as usize], loc)));
    }
    if !quick {
        let pr = programs_with(1, 2, true, 1);
        ctx.run_slice(Slice::new(format!("programs-all-operators[<=2 applications: {}]", pr.len()), pr.len() as u64, |i, loc| check_program::<B>(&pr[i as usize], loc)));
    }
    // a handle leaked out of the closure
    let pl: Vec<Prog> = programs(2, 1, false).into_iter().map(|mut p| {
        p.leak = true;
        p
    }).collect();
    ctx.run_slice(Slice::new(format!("leaked-handle[{} programs]", pl.len()), pl.len() as u64, |i, loc| check_program::<B>(&pl[i as usize], loc)));
    // forget / forget_monogamous on arbitrary lax terms: edge label 0 is the variable label
    let specs = if quick { vec![Spec::lax(3, 1, 2, 2, 2, 1, 1, 1)] } else { Spec::family_3x2(1, 1, false) };
    for spec in specs {
        let u = spec.universe();
        ctx.run_slice(Slice::new(format!("forget-terms[{}]", spec.name()), u.count(), |i, loc| check_forget_term(&u.get(i), loc)));
    }
    if quick {
        let spec2 = Spec { e_min: 2, ..Spec::lax(2, 2, 2, 2, 2, 1, 1, 0) };
        let u2 = spec2.universe();
        ctx.run_slice(Slice::new(format!("forget-terms-2-edges[{}]", spec2.name()), u2.count(), |i, loc| check_forget_term(&u2.get(i), loc)));
    }
    // a third node label on four nodes (label-keyed caches in the functor machinery behind forget)
    let xsf = if quick { Spec::open(2, 2, 2, 2, 2, 1, 1) } else { Spec::open(3, 2, 2, 1, 2, 1, 1) };
    let xuf = xsf.universe();
    ctx.run_slice(Slice::new(format!("forget-terms-exploded[{}]", xsf.name()), xuf.count(), |i, loc| check_forget_term(&ohmc_core::plain::PLax::exploded(&xuf.get_open(i)), loc)));
    let s3l = Spec { n_min: 4, n_max: 4, e_min: 0, e_max: 1, ks: 1, kt: 1, lw: 3, lx: 2, a: 1, b: 1, q: 0 };
    let u3l = s3l.universe();
    ctx.run_slice(Slice::new(format!("forget-terms-three-labels[{}]", s3l.name()), u3l.count(), |i, loc| check_forget_term(&u3l.get(i), loc)));
    // larger programs and terms, as parametrised families
    let sp = structured_programs(if quick { 6 } else { 9 });
    ctx.run_slice(Slice::new(format!("structured-programs[{} programs: chains, folds over up to 7-10 inputs, a variable used many times, wide operations]", sp.len()), sp.len() as u64, |i, loc| check_program::<B>(&sp[i as usize], loc)));
    let sf = structured_forget_terms();
    ctx.run_slice(Slice::new(format!("forget-terms-wide-variables[{} terms: variable hyperedges of arity <=3 x <=3, every labelling]", sf.len()), sf.len() as u64, |i, loc| check_forget_term(&sf[i as usize], loc)));
    let meta = Meta {
        rule: "programs: every expression program with <=2 Var::new (anywhere in the sequence), up to 1 application over every operator overload the crate defines (^ & | << >> + * - / ! unary-) plus operation (m->n) and fn_operation (n->1), up to 2 applications (quick: one declared variable; thorough: two, and 3 applications with one) over a reduced operator set, arbitrary sharing (clones), source and target lists of length <=2 (repeats and bare inputs included); the test signature makes the operation label and the result type depend on BOTH operand types; the built term must be isomorphic to the reference term (one hyperedge per application, one variable hyperedge per variable, fresh node per use/definition, interfaces in order); a family with a handle leaked out of the closure must get the shared state back; forget / forget_monogamous: on every Var-built term and on every label-consistent lax term of the universe (variable hyperedges of arity 0..2 x 0..2, any mix of incident labels, pending unification) the result must be isomorphic to the reference rewrite, keep the type, and (Var-built, single-definition programs) evaluate by the real evaluator to the value of the expression on all inputs over {1,2,3}".into(),
        bounds: "<=2 declared variables, <=1-3 applications, interface lists <=2; lax terms: <=3 nodes, <=1 (quick) / 2 hyperedges of arity <=2+2, <=1 pending pair (quick adds a 2-node / 2-edge slice)".into(),
        assumptions: vec!["a label-inconsistent lax term is not a well-formed term (it cannot be strictified)".into(), "output arities of operation() are encoded in the operation label so that the evaluator callback can produce them".into()],
        explanation: "explicit enumeration of programs/histories through the real Var interface and operator overloads; terms compared up to isomorphism".into(),
    };
    std::process::exit(ctx.finish(meta));
}
