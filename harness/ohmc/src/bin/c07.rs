use ohmc::onvec::C07;
use ohmc_core::explore::*;

fn main() {
    let mut ctx = Ctx::from_args("C07");
    let c = C07::new(ctx.quick());
    for (fam, count) in c.families.clone() {
        let cref = &c;
        ctx.run_slice(Slice::new(fam, count, move |i, loc| cref.run(fam, i, loc)));
    }
    let meta = Meta {
        rule: "per primitive, every combination of arguments from: all usize arrays of length <=4 (values <=3), all index arrays of length <=3, all range forms with lo <= hi <= len, all edge lists of <=3 edges over <=4 nodes (thorough: <=4 over <=5); combinations outside the documented precondition (index out of range, unequal lengths, underflow, d = 0) are enumerated but skipped and not counted as non-trivial; plus every array of length <=9 over {0,1} and <=6 over {0,1,2} through all unary primitives (block / lane thresholds), every array of length <=3 over magnitudes {0,1,2,255,256,257,1023,1024,1025,4097}, structured edge lists on up to 64 nodes (deep union-find trees) and sparse edge lists on up to 4097 nodes".into(),
        bounds: "quick: array length <=4, values <=3, index arrays <=3, graphs <=4 nodes / <=3 edges; thorough: array length <=5 (<=8 for the single-argument primitives argsort, reductions, bincount, sparse_bincount, zero, segmented_arange, quot_rem, scalar add, to_dense), values <=4, index arrays <=4, graphs <=5 nodes / <=4 edges plus every list of exactly 5 edges over 5 and over 6 nodes; generic primitives additionally at element type String".into(),
        assumptions: vec!["scalar reference loops are the specification".into(), "where the contract leaves a choice (argsort ties, component numbering, sparse_bincount order, scatter filler / double writes) any conforming answer is accepted".into()],
        explanation: "explicit enumeration of the real VecArray trait methods against scalar loops; partition equality for connected components".into(),
    };
    std::process::exit(ctx.finish(meta));
}
