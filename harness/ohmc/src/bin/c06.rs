use ohmc::onvec::C06;
use ohmc_core::explore::*;

fn main() {
    let mut ctx = Ctx::from_args("C06");
    let c = C06::new(ctx.quick());
    for (fam, count) in c.families.clone() {
        let cref = &c;
        ctx.run_slice(Slice::new(fam, count, move |i, loc| cref.run(fam, i, loc)));
    }
    let meta = Meta {
        rule: "all finite functions a -> b with a <= 4, b <= 4 (thorough: a <= 6, b <= 5) and from them all ordered pairs (composable or not, parallel or not); thorough: the coequalizer of every pair of parallel maps a -> 6, a <= 6; all raw tables of length <= 3 with entries <= 4 against every declared codomain 0..5; all (sizes, index map) pairs with <= 3 (thorough 4) blocks of size <= 3 and index maps of length <= 3 (4) (well and ill typed); all surjections q: B -> Q (B, Q <= 4, thorough 5) crossed with every f: B' -> 3 for |B'| in {B-1, B, B+1}; non-trivial = the interesting branch is taken (rejection, non-injective, merging coequalizer, no universal map); plus coequalizers of parallel maps read off structured edge lists on up to 64 elements (paths, stars, cycles, binomial merge orders, combs, each in four orders) and sparse pair lists on 255..4097 elements; short tables into codomains of sizes around powers of two (255..4097) for new / is_injective / identity / twist / transpose".into(),
        bounds: "quick: domains and codomains <= 4; thorough: domains <= 6, codomains <= 5 (6 for coequalizers); label alphabets of 2-3 values".into(),
        assumptions: vec!["functions-as-Vec loops are the specification".into(), "coequalizer numbering is free (partition equality)".into(), "cumulative_sum: table = exclusive prefix sums, codomain = total (its range is not demanded, see DESIGN.md)".into(), "universal-map clause only for surjective q, as the property states".into()],
        explanation: "explicit enumeration of the public FiniteFunction / SemifiniteFunction / SemifiniteArrow API against set-theoretic definitions".into(),
    };
    std::process::exit(ctx.finish(meta));
}
