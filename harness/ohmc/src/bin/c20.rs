use ohmc::props::c14::{RDiff, Route};
use ohmc::props::c16::{interp, Progs};
use ohmc::props::c20::*;
use ohmc::tf::*;
use ohmc_core::explore::*;
use ohmc_core::uni::*;
use std::sync::Arc;

fn main() {
    let mut ctx = Ctx::from_args("C20");
    let quick = ctx.quick();
    let bound = if quick { 1 } else { 2 };
    // the array contract itself, on the adversarial backend, under every tape (keeps the alarms of this check sound)
    let c7 = ohmc::onadv::C07::new(true);
    for (fam, count) in c7.families.clone() {
        if ["components", "argsort", "sort_by", "sparse_bincount", "scatter"].contains(&fam) {
            let c = &c7;
            ctx.run_slice(Slice::new(format!("adv-conformance:{}", fam), count, move |i, loc| c.run(fam, i, loc)));
        }
    }
    // finite functions and segmented arrays on the adversarial backend, all tapes, against the set-theoretic reference
    let c6 = ohmc::onadv::C06::new(true);
    for (fam, count) in c6.families.clone() {
        if ["pairs", "universal", "injections"].contains(&fam) {
            let c = &c6;
            ctx.run_slice(Slice::new(format!("adv-finite-functions:{}", fam), count, move |i, loc| c.run(fam, i, loc)));
        }
    }
    let c8 = ohmc::onadv::C08::new(true);
    for (fam, count) in c8.families.clone() {
        if ["map_indexes", "flatmap"].contains(&fam) {
            let c = &c8;
            let cnt = if fam == "flatmap" && quick { count / 8 } else { count };
            ctx.run_slice(Slice::new(format!("adv-segmented-arrays:{}", fam), cnt, move |i, loc| c.run(fam, i, loc)));
        }
    }
    // composition and tensor
    let (sl, sr) = if quick { (Spec::open(2, 1, 2, 2, 1, 1, 2), Spec::open(2, 1, 2, 2, 1, 2, 1)) } else { (Spec::open(2, 1, 2, 2, 2, 2, 2), Spec::open(2, 1, 2, 2, 2, 2, 2)) };
    let (ul, ur) = (sl.universe().all_open(), sr.universe().all_open());
    let idx = ohmc::props::c03::by_source(&ur);
    ctx.run_slice(Slice::new(format!("compose/tensor[{} x type-matching {}; deviations <= {}]", sl.name(), sr.name(), bound), ul.len() as u64, |i, loc| {
        let f = &ul[i as usize];
        if let Some(js) = idx.get(&f.target_type()) {
            for &j in js {
                loc.more_cases(1);
                check_compose(f, &ur[j], bound, loc);
            }
        }
    }).heavy());
    // functors and optics
    let tfs: Vec<TF> = if quick { vec![TF { n: [1, 1, 1], recipe: 0 }, TF { n: [2, 0, 1], recipe: 1 }, TF { n: [1, 2, 1], recipe: 2 }, TF { n: [0, 2, 1], recipe: 3 }] } else { all_tfs(2, &[0, 1, 2, 3]) };
    let sf = Spec::open(2, 1, 2, 2, 2, 1, 1);
    let uf = sf.universe();
    let ntf = tfs.len() as u64;
    ctx.run_slice(Slice::new(format!("functor[{} x {} functors; deviations <= {}]", sf.name(), ntf, bound), uf.count() * ntf, |i, loc| check_functor(&uf.get_open(i / ntf), tfs[(i % ntf) as usize], bound, loc)));
    let routes: Vec<Route> = vec![Route { f: [1, 1], r: [1, 1], m: [1, 0] }, Route { f: [2, 1], r: [1, 2], m: [0, 2] }];
    let so = if quick { Spec::open(2, 1, 1, 2, 2, 1, 1) } else { Spec::open(2, 1, 2, 2, 2, 1, 1) };
    let uo = so.universe();
    ctx.run_slice(Slice::new(format!("optic[{} x 2 routing optics; deviations <= {}]", so.name(), bound), uo.count() * 2, |i, loc| {
        let r = routes[(i % 2) as usize];
        check_optic(&uo.get_open(i / 2), Arc::new(r), &serde_json::json!(r), bound, loc)
    }));
    let circuits = ohmc::props::c14::circuits(2, 2, 2);
    let nc = circuits.len();
    ctx.run_slice(Slice::new(format!("optic-derivative-lenses[{} circuits; deviations <= {}]", nc, bound), nc as u64, |i, loc| check_optic(&circuits[i as usize], Arc::new(RDiff), &serde_json::json!("reverse-derivative lenses"), bound, loc)));
    // layering
    let slays = if quick { vec![Spec::hyper(3, 2, 2, 1, 1)] } else { vec![Spec::hyper(3, 2, 2, 1, 1), Spec { e_min: 3, ..Spec::hyper(2, 3, 2, 1, 1) }, Spec { n_min: 4, ..Spec::hyper(4, 2, 1, 1, 1) }] };
    for slay in slays {
        let ulay = slay.universe();
        ctx.run_slice(Slice::new(format!("layer[{}; deviations <= {}]", slay.name(), bound), ulay.count(), move |i, loc| check_layer(&ulay.get_open(i), bound, loc)));
    }
    // evaluation (all programs, including ones with never-written nodes)
    let progs = Progs::new(&[2, 3, 4, 6, 7], 3, 2, 2, 2);
    ctx.run_slice(Slice::new(format!("eval[{}; deviations <= {}]", progs.name(), bound), progs.count(), |i, loc| check_eval(&progs.get(i), &interp, bound, loc)));
    // predicates
    let sp = if quick { Spec::open(3, 1, 2, 1, 1, 2, 2) } else { Spec::open(3, 2, 2, 1, 1, 2, 2) };
    let up = sp.universe();
    ctx.run_slice(Slice::new(format!("predicates[{}; deviations <= {}]", sp.name(), bound), up.count(), |i, loc| check_predicates(&up.get_open(i), bound, loc)));
    // morphism tests: every sub-hypergraph inclusion (and its reversal) of every hypergraph
    let sm = if quick { Spec::hyper(3, 2, 1, 1, 1) } else { Spec::hyper(3, 2, 2, 1, 1) };
    let um = sm.universe();
    ctx.run_slice(Slice::new(format!("morphisms[sub-hypergraphs of {}; deviations <= {}]", sm.name(), bound), um.count(), |i, loc| {
        let h = um.get_open(i);
        let (n, m) = (h.nodes.len(), h.edges.len());
        for emask in 0..(1u32 << m) {
            let es: Vec<usize> = (0..m).filter(|e| emask >> e & 1 == 1).collect();
            let ns: Vec<usize> = (0..n).collect();
            let g = ohmc_core::plain::POpen { nodes: h.nodes.clone(), edges: es.iter().map(|&e| h.edges[e].clone()).collect(), s: vec![], t: vec![] };
            loc.more_cases(1);
            check_arrow(&g, &h, (&ns, n), (&es, m), bound, loc);
        }
    }));
    // structured larger diagrams (wide frontiers, many operations per layer, long chains): layering, evaluation, predicates
    let kmax = if quick { 5 } else { 7 };
    let mut shapes = ohmc::props::structured::shapes(kmax);
    shapes.extend(ohmc::props::structured::degree_probes(if quick { 6 } else { 9 }));
    shapes.extend(ohmc::props::structured::shuffled_dags().into_iter().filter(|x| quick == false || x.1.edges.len() <= 20));
    ctx.run_slice(Slice::new(format!("structured-shapes[sizes 1..{}: {} diagrams; deviations <= {}]", kmax, shapes.len(), bound), shapes.len() as u64, |i, loc| {
        check_layer(&shapes[i as usize].1, bound, loc);
        check_predicates(&shapes[i as usize].1, bound, loc);
    }).heavy());
    let sprogs = ohmc::props::structured::programs(kmax);
    ctx.run_slice(Slice::new(format!("structured-programs[sizes 1..{}: {} programs; deviations <= {}]", kmax, sprogs.len(), bound), sprogs.len() as u64, |i, loc| {
        check_eval(&sprogs[i as usize].1, &interp, bound, loc);
        check_layer(&sprogs[i as usize].1, bound, loc);
    }).heavy());
    // the same shape families at large size parameters (deviation bound 1): layering and predicates
    let sizes: Vec<usize> = if quick { vec![33, 64, 65, 129] } else { vec![33, 64, 65, 129, 257] };
    let big = ohmc::props::structured::shapes_at(&sizes, false);
    ctx.run_slice(Slice::new(format!("structured-shapes-large[sizes {:?}: {} diagrams; deviations <= 1]", sizes, big.len()), big.len() as u64, |i, loc| {
        check_layer(&big[i as usize].1, 1, loc);
        check_predicates(&big[i as usize].1, 1, loc);
    }).heavy());
    let meta = Meta {
        rule: format!("configurations x inputs: every choice tape with at most {} non-default answers of the adversarial backend (argsort tie order, component numbering, sparse_bincount row order, scatter filler; all tapes for the primitive-level slices) crossed with every input of the listed universes, for composition, tensor, functor and optic application, layering, evaluation, structural predicates and morphism tests; compared with the Vec backend's result (isomorphic diagrams, identical booleans / Option-ness / evaluation outputs and interpreter calls, layer validity by the C15 oracle); non-trivial = some tape changes the raw (un-normalised) result", bound),
        bounds: format!("deviation bound {} (at most {} executions per input), inputs: <=2-3 nodes, <=1-2 hyperedges", bound, CAP),
        assumptions: vec!["AdvKind conforms to the array contract: established by the adv-conformance slices (C07 oracle under every alternative of every choice point); plus the structured larger diagrams of C15-C17 (wide frontiers, many operations per layer, long chains)".into(), "only Vec and adversarial variants of it are run; a GPU backend's own bugs are out of scope".into()],
        explanation: "CHESS-style iterative deviation bounding applied to the environment answers of the array backend: run with a prefix, then defaults; recurse on every later choice point within the bound; a replay whose prefix meets different choice points is a machinery error".into(),
    };
    std::process::exit(ctx.finish(meta));
}
