//! The backend-independent view of the strict API: plain model in, plain model out.
use ohmc_core::plain::*;

#[derive(Clone, Debug, PartialEq, Eq, Hash)]
pub enum Fail {
    /// the library call panicked (message @ location)
    Panic(String),
    /// the library returned a value that is not well-formed (C05)
    Malformed(String),
}

pub type Res<T> = Result<T, Fail>;

impl Fail {
    pub fn kind(&self) -> &'static str {
        match self {
            Fail::Panic(_) => "panic",
            Fail::Malformed(_) => "malformed-output",
        }
    }
    pub fn msg(&self) -> &str {
        match self {
            Fail::Panic(m) | Fail::Malformed(m) => m,
        }
    }
}

pub trait StrictOps {
    const NAME: &'static str;
    fn compose<O: Lab, A: Lab>(f: &POpen<O, A>, g: &POpen<O, A>) -> Res<Option<POpen<O, A>>>;
    fn compose_shr<O: Lab, A: Lab>(f: &POpen<O, A>, g: &POpen<O, A>) -> Res<Option<POpen<O, A>>>;
    fn tensor<O: Lab, A: Lab>(f: &POpen<O, A>, g: &POpen<O, A>) -> Res<POpen<O, A>>;
    fn tensor_bitor<O: Lab, A: Lab>(f: &POpen<O, A>, g: &POpen<O, A>) -> Res<POpen<O, A>>;
    fn unit<O: Lab, A: Lab>() -> Res<Vec<O>>;
    fn identity<O: Lab, A: Lab>(w: &[O]) -> Res<POpen<O, A>>;
    fn twist<O: Lab, A: Lab>(a: &[O], b: &[O]) -> Res<POpen<O, A>>;
    fn dagger<O: Lab, A: Lab>(f: &POpen<O, A>) -> Res<POpen<O, A>>;
    /// legs are given raw as (table, declared codomain)
    fn spider<O: Lab, A: Lab>(s: (&[usize], usize), t: (&[usize], usize), w: &[O], via_trait: bool) -> Res<Option<POpen<O, A>>>;
    fn half_spider<O: Lab, A: Lab>(s: (&[usize], usize), w: &[O]) -> Res<Option<POpen<O, A>>>;
    fn is_discrete<O: Lab, A: Lab>(f: &POpen<O, A>) -> Res<bool>;
    fn source_target<O: Lab, A: Lab>(f: &POpen<O, A>) -> Res<(Vec<O>, Vec<O>)>;
    fn singleton<O: Lab, A: Lab>(x: A, a: &[O], b: &[O]) -> Res<POpen<O, A>>;
    fn tensor_operations<O: Lab, A: Lab>(ops: &[(A, Vec<O>, Vec<O>)]) -> Res<POpen<O, A>>;
    fn coequalize_vertices<O: Lab, A: Lab>(h: &POpen<O, A>, q: (&[usize], usize)) -> Res<Option<POpen<O, A>>>;
    fn validate_roundtrip<O: Lab, A: Lab>(f: &POpen<O, A>) -> Res<bool>;

    // ---- graph algorithms -------------------------------------------------------------------
    /// (layer of each operation, unvisited flags)
    fn layer<O: Lab, A: Lab>(f: &POpen<O, A>) -> Res<(Vec<usize>, Vec<usize>)>;
    /// (groups of operations per layer, unvisited flags)
    fn layered_operations<O: Lab, A: Lab>(f: &POpen<O, A>) -> Res<(Vec<Vec<usize>>, Vec<usize>)>;
    fn hook_converse(lists: &[Vec<usize>], codomain: usize) -> Res<Vec<Vec<usize>>>;
    fn hook_operation_adjacency<O: Lab, A: Lab>(f: &POpen<O, A>) -> Res<Vec<Vec<usize>>>;
    fn hook_node_adjacency<O: Lab, A: Lab>(f: &POpen<O, A>) -> Res<Vec<Vec<usize>>>;
    fn hook_indegree(adj: &[Vec<usize>]) -> Res<Vec<usize>>;
    fn hook_kahn(adj: &[Vec<usize>]) -> Res<(Vec<usize>, Vec<usize>)>;
    fn is_acyclic<O: Lab, A: Lab>(f: &POpen<O, A>, via_open: bool) -> Res<bool>;
    fn is_monogamous<O: Lab, A: Lab>(f: &POpen<O, A>) -> Res<bool>;
    fn degrees<O: Lab, A: Lab>(f: &POpen<O, A>, node: usize) -> Res<(usize, usize)>;
    /// evaluate with `interp(label, args) -> outputs`; returns the outputs (None = refused) and the
    /// log of every (label, args) the library asked the interpreter to apply
    fn eval<O: Lab, A: Lab>(f: &POpen<O, A>, inputs: &[u64], interp: &(dyn Fn(&A, &[u64]) -> Vec<u64> + Sync)) -> Res<(Option<Vec<u64>>, Vec<(A, Vec<u64>)>)>;
    /// Ok(Ok(())) accepted, Ok(Err(variant)) rejected
    fn arrow_new<O: Lab, A: Lab>(g: &POpen<O, A>, h: &POpen<O, A>, w: (&[usize], usize), x: (&[usize], usize)) -> Res<Result<(), String>>;
    /// (is_monomorphism, is_convex_subgraph) of an arrow built without validation
    fn arrow_mono_convex<O: Lab, A: Lab>(g: &POpen<O, A>, h: &POpen<O, A>, w: (&[usize], usize), x: (&[usize], usize)) -> Res<(bool, bool)>;

    // ---- functors ----------------------------------------------------------------------------
    fn functor_apply(f: &POpen<u8, u8>, tf: crate::tf::TF) -> Res<POpen<u8, u8>>;
    fn identity_functor(f: &POpen<u8, u8>) -> Res<POpen<u8, u8>>;

    // ---- optics ------------------------------------------------------------------------------
    /// (optic image, adapted optic image) of `f` under the strict Optic built from the plain optic
    fn optic_apply(f: &POpen<u8, u8>, o: std::sync::Arc<dyn crate::tf::PlainOptic>) -> Res<(POpen<u8, u8>, POpen<u8, u8>)>;

    // ---- secondary entry points ----------------------------------------------------------------
    /// strict::Hypergraph::coproduct and `&h + &h` (decoded as diagrams with empty interfaces), Hypergraph::empty()
    /// and discrete(w) with is_discrete
    fn hypergraph_level<O: Lab, A: Lab>(f: &POpen<O, A>, g: &POpen<O, A>) -> Res<(POpen<O, A>, POpen<O, A>, POpen<O, A>, (POpen<O, A>, bool))>;
    /// source / target through the Arrow trait
    fn source_target_trait<O: Lab, A: Lab>(f: &POpen<O, A>) -> Res<(Vec<O>, Vec<O>)>;
}
