// C07 — element-wise contract of the array primitives. Included (through be_body.rs) once per
// backend: for VecKind it is property C07 itself, for AdvKind it is the conformance test that
// keeps C20's alarms sound (every alternative answer of every choice point must still satisfy
// the same contract).

/// an element type with non-commutative, non-associative + and - (free terms)
#[derive(Clone, Debug, PartialEq)]
pub struct Word(pub String);
impl core::ops::Add for Word {
    type Output = Word;
    fn add(self, o: Word) -> Word {
        Word(format!("({}+{})", self.0, o.0))
    }
}
impl core::ops::Sub for Word {
    type Output = Word;
    fn sub(self, o: Word) -> Word {
        Word(format!("({}-{})", self.0, o.0))
    }
}

pub struct C07 {
    /// all arrays of length <= 4 over values <= 3
    pub arrays: Vec<Vec<usize>>,
    /// all arrays of length <= 3 over values <= 3
    pub short: Vec<Vec<usize>>,
    /// edge lists (sources, targets, n)
    pub graphs: Vec<(Vec<usize>, Vec<usize>, usize)>,
    /// longer arrays over a smaller alphabet (length <= 9 over {0,1}, <= 6 over {0,1,2}): block / lane thresholds
    pub long: Vec<Vec<usize>>,
    /// structured edge lists on up to 64 nodes in several orders (paths, stars, binomial merges, cycles,
    /// combs): deep union-find trees that no 5-node graph can produce
    pub big_graphs: Vec<(Vec<usize>, Vec<usize>, usize)>,
    /// arrays for the single-argument primitives (thorough: length <= 8 over values <= 4; quick: = arrays)
    pub singles: Vec<Vec<usize>>,
    pub deep: bool,
    pub families: Vec<(&'static str, u64)>,
}

/// magnitudes around powers of two (table sizes, lane counts, memo sizes): values and sizes of this
/// order occur in real use although every array in the exhaustive universes is tiny
pub const LARGE: [usize; 10] = [0, 1, 2, 255, 256, 257, 1023, 1024, 1025, 4097];

fn structured_graphs() -> Vec<(Vec<usize>, Vec<usize>, usize)> {
    let mut out: Vec<(Vec<usize>, Vec<usize>, usize)> = vec![];
    let mut push = |edges: Vec<(usize, usize)>, n: usize, out: &mut Vec<(Vec<usize>, Vec<usize>, usize)>| {
        // the edge list as given, reversed, with endpoints swapped, and both
        let variants: Vec<Vec<(usize, usize)>> = vec![
            edges.clone(),
            edges.iter().rev().cloned().collect(),
            edges.iter().map(|&(a, b)| (b, a)).collect(),
            edges.iter().rev().map(|&(a, b)| (b, a)).collect(),
        ];
        for v in variants {
            out.push((v.iter().map(|e| e.0).collect(), v.iter().map(|e| e.1).collect(), n));
        }
    };
    for n in [1usize, 2, 3, 5, 8, 13, 16, 17, 31, 32, 33, 64] {
        // path, star, cycle, two halves
        push((1..n).map(|i| (i - 1, i)).collect(), n, &mut out);
        push((1..n).map(|i| (0, i)).collect(), n, &mut out);
        push((0..n).map(|i| (i, (i + 1) % n)).collect(), n, &mut out);
        push((2..n).map(|i| (i - 2, i)).collect(), n, &mut out);
        // pairs first, then pairs of pairs, ... (binomial, root to root and leaf to leaf)
        for leaf in [false, true] {
            let mut edges = vec![];
            let mut step = 1;
            while step < n {
                let mut i = 0;
                while i + step < n {
                    edges.push(if leaf { (i + step - 1, (i + 2 * step).min(n) - 1) } else { (i, i + step) });
                    i += 2 * step;
                }
                step *= 2;
            }
            push(edges, n, &mut out);
        }
        // comb: a path with a tooth on every node, teeth first
        if n >= 4 {
            let h = n / 2;
            let mut edges: Vec<(usize, usize)> = (0..h).map(|i| (i, h + i)).collect();
            edges.extend((1..h).map(|i| (i - 1, i)));
            push(edges, 2 * h, &mut out);
        }
    }
    // a class assembled in balanced order (pairs, quads, octets: a union-by-rank tree of depth d) followed by ONE
    // redundant pair (u, v) - every ordered pair of the class - and one or two further elements that must stay apart;
    // as given only (the orientation of the redundant pair is part of the enumeration)
    for d in [2u32, 3, 4] {
        let n = 1usize << d;
        let mut base = vec![];
        let mut step = 1;
        while step < n {
            let mut i = 0;
            while i + step < n {
                base.push((i, i + step));
                i += 2 * step;
            }
            step *= 2;
        }
        for u in 0..n {
            for v in 0..n {
                let mut e = base.clone();
                e.push((u, v));
                out.push((e.iter().map(|p| p.0).collect(), e.iter().map(|p| p.1).collect(), n + 1));
                // two redundant pairs and two outsiders
                e.push((v, (u + 1) % n));
                out.push((e.iter().map(|p| p.0).collect(), e.iter().map(|p| p.1).collect(), n + 2));
            }
        }
    }
    out
}

/// (number of runs, run length, first index, one trailing index continuing the last run)
const GATHER_RUNS: [(usize, usize, usize, bool); 10] = [(8, 2, 0, false), (8, 2, 1, false), (8, 2, 0, true), (6, 3, 0, false), (6, 3, 1, true), (5, 4, 0, false), (4, 4, 1, false), (4, 5, 0, true), (3, 6, 0, false), (2, 8, 1, true)];
fn fact(n: usize) -> u64 {
    (1..=n as u64).product()
}
fn a(v: &[usize]) -> Arr<usize> {
    Arr(v.to_vec())
}

type CR = Result<(), String>;

fn ensure(c: bool, msg: impl FnOnce() -> String) -> CR {
    if c {
        Ok(())
    } else {
        Err(msg())
    }
}

impl C07 {
    pub fn new(quick: bool) -> C07 {
        // quick: arrays of length <= 4 over values <= 3; thorough: length <= 5 over values <= 4
        let arrays = if quick { ohmc_core::uni::lists(4, 4) } else { ohmc_core::uni::lists(5, 5) };
        let short = if quick { ohmc_core::uni::lists(4, 3) } else { ohmc_core::uni::lists(5, 4) };
        let mut graphs = vec![];
        let (nmax, emax) = if quick { (4, 3) } else { (5, 4) };
        for n in 0..=nmax {
            for e in 0..=emax {
                if n == 0 && e > 0 {
                    continue;
                }
                for s in ohmc_core::uni::tables(e, n) {
                    for t in ohmc_core::uni::tables(e, n) {
                        graphs.push((s.clone(), t, n));
                    }
                }
            }
        }
        let mut long = ohmc_core::uni::lists(2, 9);
        long.extend(ohmc_core::uni::lists(3, 6).into_iter().filter(|l| l.contains(&2)));
        // patterned arrays around lengths 16 / 32 / 64 (thresholds of sort-based or blocked code paths)
        for len in [15usize, 16, 17, 18, 31, 32, 33, 63, 64, 65] {
            let pats: Vec<Vec<usize>> = vec![
                vec![0; len],
                vec![1; len],
                (0..len).map(|i| i % 3).collect(),
                (0..len).map(|i| (len - i) % 4).collect(),
                (0..len).map(|i| if i + 1 == len { 2 } else { 1 }).collect(),
                (0..len).map(|i| if i == 0 { 2 } else { 1 }).collect(),
                (0..len).map(|i| if i == len / 2 { 0 } else { 3 }).collect(),
                (0..len).map(|i| i % 2).collect(),
                (0..len).map(|i| if i < len / 2 { 1 } else { 0 }).collect(),
            ];
            long.extend(pats);
        }
        let big_graphs = structured_graphs();
        let singles = if quick { arrays.clone() } else { ohmc_core::uni::lists(5, 8) };
        let n1 = singles.len() as u64;
        let na = arrays.len() as u64;
        let ns = short.len() as u64;
        let families: Vec<(&'static str, u64)> = vec![
            ("basic", na),
            ("ranges", 6 * 6 * 6),
            ("set_range", ns * 25),
            ("concatenate", na * na),
            ("fill", 4 * 5),
            ("gather", na * ns),
            ("scatter", ns * ns * 6),
            ("scatter_assign", ns * ns * ns),
            ("scatter_assign_constant", na * ns * 4),
            ("arith", na * na),
            ("scalar_add", n1 * 4),
            ("argsort", n1),
            ("sort_by", ns * ns),
            ("reductions", n1),
            ("arange", 6 * 6),
            ("repeat", ns * ns),
            ("quot_rem", n1 * 4),
            ("mul_constant_add", ns * ns * 4),
            ("components", graphs.len() as u64),
            ("to_dense", n1),
            ("segmented_sum", ns * na),
            ("segmented_arange", n1),
            ("bincount", n1 * 6),
            ("sparse_bincount", n1),
            ("zero", n1),
            ("scatter_sub_assign", ns * ns * ns),
            ("generic_elements", ns * ns),
            ("long_arrays", long.len() as u64),
            ("gather_permuted_runs", GATHER_RUNS.iter().map(|c| fact(c.0)).sum::<u64>()),
            ("components_structured", big_graphs.len() as u64),
            ("large_values", 10 * 10 * 10 + 10 * 10 + 10 + 1),
            ("components_large_sparse", (LARGE.len() * 6) as u64),
            ("extreme_values", 7 * 7 * 7 * 7 + 7 * 7 * 7 + 7 * 7 + 7 + 1),
        ];
        let mut families = families;
        if !quick {
            // every edge list of exactly 5 edges over 5 and over 6 nodes (unranked on the fly)
            families.push(("components_five_edges", 5u64.pow(10) + 6u64.pow(10)));
        }
        C07 { arrays, short, graphs, long, big_graphs, singles, deep: !quick, families }
    }

    pub fn run(&self, fam: &str, i: u64, loc: &mut ohmc_core::explore::Local) {
        // every open choice of the backend is explored completely (VecKind has none)
        let mut runs = 0u64;
        let mut applicable = true;
        let st = crate::adv::explore_tapes(usize::MAX, 4096, || catch(|| self.case(fam, i)), |tape, r, _log| {
            runs += 1;
            match r {
                Ok(Ok(true)) => {}
                Ok(Ok(false)) => applicable = false,
                Ok(Err(msg)) => loc.violation(&format!("contract:{}", fam), serde_json::json!({"primitive": fam, "index": i, "tape": tape, "why": msg, "backend": BACKEND_NAME})),
                Err(p) => loc.violation(&format!("panic:{}", fam), serde_json::json!({"primitive": fam, "index": i, "tape": tape, "panic": p, "backend": BACKEND_NAME})),
            }
        });
        if st.diverged > 0 {
            loc.violation("choice-tape-diverged", serde_json::json!({"primitive": fam, "index": i}));
        }
        if applicable {
            loc.trans(runs);
            loc.nontrivial();
            loc.add("tapes", runs);
        }
        loc.outcome(&(fam, applicable, runs));
        loc.sample(|| serde_json::json!({"primitive": fam, "index": i, "inside_precondition": applicable}));
    }

    /// Ok(true): checked; Ok(false): the case is outside the primitive's precondition (skipped);
    /// Err: contract violated.
    fn case(&self, fam: &str, i: u64) -> Result<bool, String> {
        let na = self.arrays.len() as u64;
        let ns = self.short.len() as u64;
        let arr = |k: u64| &self.arrays[k as usize];
        let one = |k: u64| &self.singles[k as usize];
        let sh = |k: u64| &self.short[k as usize];
        match fam {
            "basic" => {
                let v = arr(i);
                let x = <Arr<usize> as Array<K, usize>>::from_slice(&v[..]);
                ensure(x.0 == *v, || format!("from_slice({:?}) = {:?}", v, x.0))?;
                ensure(Array::<K, usize>::len(&x) == v.len(), || "len".into())?;
                ensure(Array::<K, usize>::is_empty(&x) == v.is_empty(), || "is_empty".into())?;
                for (k, e) in v.iter().enumerate() {
                    ensure(Array::<K, usize>::get(&x, k) == *e, || format!("get({})", k))?;
                }
                let e = <Arr<usize> as Array<K, usize>>::empty();
                ensure(e.0.is_empty() && Array::<K, usize>::len(&e) == 0 && Array::<K, usize>::is_empty(&e), || "empty()".into())?;
                Ok(true)
            }
            "ranges" => {
                // array length n, bounds lo <= hi <= n, all range forms
                let n = (i / 36) as usize; // 0..=5
                let lo = ((i / 6) % 6) as usize;
                let hi = (i % 6) as usize;
                if !(lo <= hi && hi <= n) {
                    return Ok(false);
                }
                let v: Vec<usize> = (0..n).map(|k| 10 + k).collect();
                let x = a(&v);
                use core::ops::Bound::*;
                let chk = |got: core::ops::Range<usize>, s: usize, e: usize, what: &str| ensure(got.start == s && got.end == e, || format!("to_range({}) on len {} = {:?}, expected {}..{}", what, n, got, s, e));
                chk(Array::<K, usize>::to_range(&x, ..), 0, n, "..")?;
                chk(Array::<K, usize>::to_range(&x, lo..), lo, n, "lo..")?;
                chk(Array::<K, usize>::to_range(&x, ..hi), 0, hi, "..hi")?;
                chk(Array::<K, usize>::to_range(&x, lo..hi), lo, hi, "lo..hi")?;
                ensure(Array::<K, usize>::get_range(&x, ..) == &v[..], || "get_range(..)".into())?;
                ensure(Array::<K, usize>::get_range(&x, lo..) == &v[lo..], || format!("get_range({}..)", lo))?;
                ensure(Array::<K, usize>::get_range(&x, ..hi) == &v[..hi], || format!("get_range(..{})", hi))?;
                ensure(Array::<K, usize>::get_range(&x, lo..hi) == &v[lo..hi], || format!("get_range({}..{})", lo, hi))?;
                if hi < n {
                    chk(Array::<K, usize>::to_range(&x, ..=hi), 0, hi + 1, "..=hi")?;
                    chk(Array::<K, usize>::to_range(&x, lo..=hi), lo, hi + 1, "lo..=hi")?;
                    ensure(Array::<K, usize>::get_range(&x, ..=hi) == &v[..=hi], || format!("get_range(..={}) on len {}", hi, n))?;
                    ensure(Array::<K, usize>::get_range(&x, lo..=hi) == &v[lo..=hi], || format!("get_range({}..={}) on len {}", lo, hi, n))?;
                }
                if lo < hi {
                    chk(Array::<K, usize>::to_range(&x, (Excluded(lo), Excluded(hi))), lo + 1, hi, "(lo,hi)")?;
                    chk(Array::<K, usize>::to_range(&x, (Excluded(lo), Unbounded)), lo + 1, n, "(lo,..)")?;
                }
                Ok(true)
            }
            "set_range" => {
                // target array = short[i/16] ; range lo..hi from (i%16)
                let v = sh(i / 25);
                let lo = ((i % 25) / 5) as usize;
                let hi = (i % 5) as usize;
                if !(lo <= hi && hi <= v.len()) {
                    return Ok(false);
                }
                let w: Vec<usize> = (lo..hi).map(|k| 7 + k).collect();
                let mut x = a(v);
                Array::<K, usize>::set_range(&mut x, lo..hi, &a(&w));
                let mut e = v.clone();
                e[lo..hi].clone_from_slice(&w);
                ensure(x.0 == e, || format!("set_range({}..{}) on {:?} with {:?} = {:?}", lo, hi, v, w, x.0))?;
                if hi < v.len() {
                    let w2: Vec<usize> = (lo..=hi).map(|k| 9 + k).collect();
                    let mut x = a(v);
                    Array::<K, usize>::set_range(&mut x, lo..=hi, &a(&w2));
                    let mut e = v.clone();
                    e[lo..=hi].clone_from_slice(&w2);
                    ensure(x.0 == e, || format!("set_range({}..={}) on {:?} = {:?}", lo, hi, v, x.0))?;
                }
                let mut x = a(v);
                let w3: Vec<usize> = (lo..v.len()).map(|k| 20 + k).collect();
                Array::<K, usize>::set_range(&mut x, lo.., &a(&w3));
                let mut e = v.clone();
                e[lo..].clone_from_slice(&w3);
                ensure(x.0 == e, || format!("set_range({}..) on {:?} = {:?}", lo, v, x.0))?;
                Ok(true)
            }
            "concatenate" => {
                let (p, q) = (arr(i / na), arr(i % na));
                let r = Array::<K, usize>::concatenate(&a(p), &a(q));
                let mut e = p.clone();
                e.extend(q.iter().cloned());
                ensure(r.0 == e, || format!("concatenate({:?},{:?}) = {:?}", p, q, r.0))?;
                Ok(true)
            }
            "fill" => {
                let (x, n) = ((i / 5) as usize, (i % 5) as usize);
                let r = <Arr<usize> as Array<K, usize>>::fill(x, n);
                ensure(r.0 == vec![x; n], || format!("fill({},{}) = {:?}", x, n, r.0))?;
                Ok(true)
            }
            "gather" => {
                let (v, idx) = (arr(i / ns), sh(i % ns));
                if idx.iter().any(|&k| k >= v.len()) {
                    return Ok(false);
                }
                let r = Array::<K, usize>::gather(&a(v), &idx[..]);
                let e: Vec<usize> = idx.iter().map(|&k| v[k]).collect();
                ensure(r.0 == e, || format!("gather({:?},{:?}) = {:?}", v, idx, r.0))?;
                Ok(true)
            }
            "scatter" => {
                let v = sh(i / (ns * 6));
                let idx = sh((i / 6) % ns);
                let n = (i % 6) as usize;
                if idx.len() != v.len() || idx.iter().any(|&k| k >= n) {
                    return Ok(false);
                }
                let r = Array::<K, usize>::scatter(&a(v), &idx[..], n);
                if v.is_empty() {
                    // there is no element to fill with: an empty or an n-long result are both conforming
                    return ensure(r.0.is_empty() || r.0.len() == n, || format!("scatter of empty array has length {}", r.0.len())).map(|_| true);
                }
                ensure(r.0.len() == n, || format!("scatter({:?},{:?},{}) has length {}", v, idx, n, r.0.len()))?;
                for j in 0..n {
                    let writers: Vec<usize> = (0..v.len()).filter(|&k| idx[k] == j).map(|k| v[k]).collect();
                    if !writers.is_empty() {
                        ensure(writers.contains(&r.0[j]), || format!("scatter({:?},{:?},{}) = {:?}: cell {} holds a value nobody wrote", v, idx, n, r.0, j))?;
                    }
                }
                Ok(true)
            }
            "scatter_assign" => {
                let base = sh(i / (ns * ns));
                let ixs = sh((i / ns) % ns);
                let vals = sh(i % ns);
                if ixs.len() != vals.len() || ixs.iter().any(|&k| k >= base.len()) {
                    return Ok(false);
                }
                let mut x = a(base);
                Array::<K, usize>::scatter_assign(&mut x, &a(ixs), a(vals));
                ensure(x.0.len() == base.len(), || "scatter_assign changed the length".into())?;
                for j in 0..base.len() {
                    let writers: Vec<usize> = (0..ixs.len()).filter(|&k| ixs[k] == j).map(|k| vals[k]).collect();
                    if writers.is_empty() {
                        ensure(x.0[j] == base[j], || format!("scatter_assign touched cell {} nobody wrote: {:?} {:?} {:?} -> {:?}", j, base, ixs, vals, x.0))?;
                    } else {
                        ensure(writers.contains(&x.0[j]), || format!("scatter_assign cell {}: {:?} {:?} {:?} -> {:?}", j, base, ixs, vals, x.0))?;
                    }
                }
                Ok(true)
            }
            "scatter_assign_constant" => {
                let base = arr(i / (ns * 4));
                let ixs = sh((i / 4) % ns);
                let c = 5 + (i % 4) as usize;
                if ixs.iter().any(|&k| k >= base.len()) {
                    return Ok(false);
                }
                let mut x = a(base);
                Array::<K, usize>::scatter_assign_constant(&mut x, &a(ixs), c);
                let mut e = base.clone();
                for &k in ixs.iter() {
                    e[k] = c;
                }
                ensure(x.0 == e, || format!("scatter_assign_constant({:?},{:?},{}) = {:?}", base, ixs, c, x.0))?;
                Ok(true)
            }
            "arith" => {
                let (p, q) = (arr(i / na), arr(i % na));
                if p.len() != q.len() {
                    return Ok(false);
                }
                let r = a(p) + a(q);
                let e: Vec<usize> = p.iter().zip(q.iter()).map(|(x, y)| x + y).collect();
                ensure(r.0 == e, || format!("{:?} + {:?} = {:?}", p, q, r.0))?;
                if p.iter().zip(q.iter()).all(|(x, y)| x >= y) {
                    let r = a(p) - a(q);
                    let e: Vec<usize> = p.iter().zip(q.iter()).map(|(x, y)| x - y).collect();
                    ensure(r.0 == e, || format!("{:?} - {:?} = {:?}", p, q, r.0))?;
                }
                Ok(true)
            }
            "scalar_add" => {
                let (v, c) = (one(i / 4), (i % 4) as usize);
                let r: Arr<usize> = c + &a(v);
                let e: Vec<usize> = v.iter().map(|x| x + c).collect();
                ensure(r.0 == e, || format!("{} + &{:?} = {:?}", c, v, r.0))?;
                Ok(true)
            }
            "argsort" => {
                let v = one(i);
                let r = OrdArray::<K, usize>::argsort(&a(v));
                check_sorting_perm(v, &r.0)?;
                // a non-Copy, non-numeric key type
                let sv: Vec<String> = v.iter().map(|x| format!("k{}", 9 - x)).collect();
                let r = OrdArray::<K, String>::argsort(&Arr(sv.clone()));
                check_sorting_perm(&sv, &r.0)?;
                Ok(true)
            }
            "sort_by" => {
                let (vals, keys) = (sh(i / ns), sh(i % ns));
                if vals.len() != keys.len() {
                    return Ok(false);
                }
                let r = OrdArray::<K, usize>::sort_by(&a(vals), &a(keys));
                // r must be a key-sorted rearrangement of the (key, value) pairs
                let mut pairs: Vec<(usize, usize)> = keys.iter().cloned().zip(vals.iter().cloned()).collect();
                pairs.sort();
                let mut sk: Vec<usize> = keys.clone();
                sk.sort();
                ensure(r.0.len() == vals.len(), || "sort_by changed the length".into())?;
                let mut got: Vec<(usize, usize)> = sk.iter().cloned().zip(r.0.iter().cloned()).collect();
                got.sort();
                ensure(got == pairs, || format!("sort_by({:?} by {:?}) = {:?} is not a key-sorted rearrangement", vals, keys, r.0))?;
                Ok(true)
            }
            "reductions" => {
                let v = one(i);
                let x = a(v);
                ensure(NaturalArray::<K>::max(&x) == v.iter().max().cloned(), || format!("max({:?})", v))?;
                let cs = NaturalArray::<K>::cumulative_sum(&x);
                let mut e = vec![0usize];
                for k in v.iter() {
                    e.push(e.last().unwrap() + k);
                }
                ensure(cs.0 == e, || format!("cumulative_sum({:?}) = {:?}", v, cs.0))?;
                ensure(NaturalArray::<K>::sum(&x) == v.iter().sum::<usize>(), || format!("sum({:?})", v))?;
                Ok(true)
            }
            "arange" => {
                let (s, e) = ((i / 6) as usize, (i % 6) as usize);
                if s > e {
                    return Ok(false);
                }
                let r = <Arr<usize> as NaturalArray<K>>::arange(&s, &e);
                ensure(r.0 == (s..e).collect::<Vec<_>>(), || format!("arange({},{}) = {:?}", s, e, r.0))?;
                Ok(true)
            }
            "repeat" => {
                let (counts, xs) = (sh(i / ns), sh(i % ns));
                if counts.len() != xs.len() {
                    return Ok(false);
                }
                let r = NaturalArray::<K>::repeat(&a(counts), &xs[..]);
                let mut e = vec![];
                for (c, x) in counts.iter().zip(xs.iter()) {
                    for _ in 0..*c {
                        e.push(*x);
                    }
                }
                ensure(r.0 == e, || format!("repeat({:?},{:?}) = {:?}", counts, xs, r.0))?;
                Ok(true)
            }
            "quot_rem" => {
                let (v, d) = (one(i / 4), 1 + (i % 4) as usize);
                let w: Vec<usize> = v.iter().map(|x| x * 3 + 1).collect();
                let (q, r) = NaturalArray::<K>::quot_rem(&a(&w), d);
                ensure(q.0 == w.iter().map(|x| x / d).collect::<Vec<_>>() && r.0 == w.iter().map(|x| x % d).collect::<Vec<_>>(), || format!("quot_rem({:?},{}) = ({:?},{:?})", w, d, q.0, r.0))?;
                Ok(true)
            }
            "mul_constant_add" => {
                let (p, q, c) = (sh(i / (ns * 4)), sh((i / 4) % ns), (i % 4) as usize);
                if p.len() != q.len() {
                    return Ok(false);
                }
                let r = NaturalArray::<K>::mul_constant_add(&a(p), c, &a(q));
                let e: Vec<usize> = p.iter().zip(q.iter()).map(|(x, y)| x * c + y).collect();
                ensure(r.0 == e, || format!("mul_constant_add({:?},{},{:?}) = {:?}", p, c, q, r.0))?;
                Ok(true)
            }
            "components" => {
                let (s, t, n) = &self.graphs[i as usize];
                let (lab, k) = <Arr<usize> as NaturalArray<K>>::connected_components(&a(s), &a(t), *n);
                let pairs: Vec<(usize, usize)> = s.iter().cloned().zip(t.iter().cloned()).collect();
                let (rq, rk) = classes(*n, &pairs);
                ensure(lab.0.len() == *n, || format!("components: {} labels for {} nodes", lab.0.len(), n))?;
                ensure(k == rk, || format!("components({:?},{:?},{}): k = {}, expected {}", s, t, n, k, rk))?;
                ensure(is_dense_surjection(&lab.0, k), || format!("components({:?},{:?},{}) = {:?} is not a dense numbering 0..{}", s, t, n, lab.0, k))?;
                ensure(same_partition(&lab.0, &rq), || format!("components({:?},{:?},{}) = {:?}: wrong partition (reference {:?})", s, t, n, lab.0, rq))?;
                Ok(true)
            }
            "components_five_edges" => {
                let (n, mut r) = if i < 5u64.pow(10) { (5usize, i) } else { (6usize, i - 5u64.pow(10)) };
                let mut d = vec![];
                for _ in 0..10 {
                    d.push((r % n as u64) as usize);
                    r /= n as u64;
                }
                let (s, t) = (d[..5].to_vec(), d[5..].to_vec());
                let (lab, k) = <Arr<usize> as NaturalArray<K>>::connected_components(&a(&s), &a(&t), n);
                let pairs: Vec<(usize, usize)> = s.iter().cloned().zip(t.iter().cloned()).collect();
                let (rq, rk) = classes(n, &pairs);
                ensure(lab.0.len() == n && k == rk && is_dense_surjection(&lab.0, k) && same_partition(&lab.0, &rq), || format!("components({:?},{:?},{}) = ({:?},{}), reference classes {:?}", s, t, n, lab.0, k, rq))?;
                Ok(true)
            }
            "to_dense" => {
                if BACKEND_NAME != "vec" {
                    return Ok(false);
                }
                let v = one(i);
                let (d, k) = open_hypergraphs::array::vec::to_dense(&v[..]);
                ensure(d.len() == v.len() && is_dense_surjection(&d, k) && same_partition(&d, v), || format!("to_dense({:?}) = ({:?},{})", v, d, k))?;
                // first-occurrence numbering is what the function documents by example
                let mut seen: Vec<usize> = vec![];
                for (j, x) in v.iter().enumerate() {
                    let id = match seen.iter().position(|y| y == x) {
                        Some(p) => p,
                        None => {
                            seen.push(*x);
                            seen.len() - 1
                        }
                    };
                    ensure(d[j] == id, || format!("to_dense({:?}) = {:?} is not numbered by first occurrence", v, d))?;
                }
                Ok(true)
            }
            "segmented_sum" => {
                let (sizes, x) = (sh(i / na), arr(i % na));
                if sizes.iter().sum::<usize>() != x.len() {
                    return Ok(false);
                }
                let r = NaturalArray::<K>::segmented_sum(&a(sizes), &a(x));
                let mut e = vec![];
                let mut p = 0;
                for &k in sizes.iter() {
                    e.push(x[p..p + k].iter().sum::<usize>());
                    p += k;
                }
                ensure(r.0 == e, || format!("segmented_sum({:?},{:?}) = {:?}", sizes, x, r.0))?;
                Ok(true)
            }
            "segmented_arange" => {
                let v = one(i);
                let r = NaturalArray::<K>::segmented_arange(&a(v));
                let mut e = vec![];
                for &k in v.iter() {
                    e.extend(0..k);
                }
                ensure(r.0 == e, || format!("segmented_arange({:?}) = {:?}", v, r.0))?;
                Ok(true)
            }
            "bincount" => {
                let (v, size) = (one(i / 6), (i % 6) as usize);
                if v.iter().any(|&x| x >= size) {
                    return Ok(false);
                }
                let r = NaturalArray::<K>::bincount(&a(v), size);
                let e: Vec<usize> = (0..size).map(|j| v.iter().filter(|&&x| x == j).count()).collect();
                ensure(r.0 == e, || format!("bincount({:?},{}) = {:?}", v, size, r.0))?;
                Ok(true)
            }
            "sparse_bincount" => {
                let v = one(i);
                let (keys, counts) = NaturalArray::<K>::sparse_bincount(&a(v));
                ensure(keys.0.len() == counts.0.len(), || "sparse_bincount: unequal lengths".into())?;
                let mut seen = vec![];
                for (k, c) in keys.0.iter().zip(counts.0.iter()) {
                    ensure(!seen.contains(k), || format!("sparse_bincount({:?}) lists {} twice", v, k))?;
                    seen.push(*k);
                    let e = v.iter().filter(|x| *x == k).count();
                    ensure(e > 0 && e == *c, || format!("sparse_bincount({:?}) = ({:?},{:?})", v, keys.0, counts.0))?;
                }
                ensure(v.iter().all(|x| seen.contains(x)), || format!("sparse_bincount({:?}) misses a value: {:?}", v, keys.0))?;
                Ok(true)
            }
            "zero" => {
                let v = one(i);
                let r = NaturalArray::<K>::zero(&a(v));
                let e: Vec<usize> = (0..v.len()).filter(|&j| v[j] == 0).collect();
                ensure(r.0 == e, || format!("zero({:?}) = {:?}", v, r.0))?;
                Ok(true)
            }
            "scatter_sub_assign" => {
                let base = sh(i / (ns * ns));
                let ixs = sh((i / ns) % ns);
                let rhs = sh(i % ns);
                if ixs.len() != rhs.len() || ixs.iter().any(|&k| k >= base.len()) {
                    return Ok(false);
                }
                let big: Vec<usize> = base.iter().map(|x| x + 40).collect(); // no underflow (at most 4 subtractions of at most 4)
                let mut e = big.clone();
                for (k, r) in ixs.iter().zip(rhs.iter()) {
                    e[*k] -= r;
                }
                let mut x = a(&big);
                NaturalArray::<K>::scatter_sub_assign(&mut x, &a(ixs), &a(rhs));
                ensure(x.0 == e, || format!("scatter_sub_assign({:?},{:?},{:?}) = {:?}, expected {:?}", big, ixs, rhs, x.0, e))?;
                Ok(true)
            }
            "generic_elements" => {
                // the generic primitives at a non-Copy element type
                let (v, idx) = (sh(i / ns), sh(i % ns));
                let sv: Vec<String> = v.iter().map(|x| format!("s{}", x)).collect();
                let x: Arr<String> = Arr(sv.clone());
                ensure(Array::<K, String>::len(&x) == sv.len(), || "len<String>".into())?;
                let c = Array::<K, String>::concatenate(&x, &x);
                ensure(c.0 == [sv.clone(), sv.clone()].concat(), || "concatenate<String>".into())?;
                let f = <Arr<String> as Array<K, String>>::fill("z".to_string(), idx.len());
                ensure(f.0 == vec!["z".to_string(); idx.len()], || "fill<String>".into())?;
                if idx.iter().all(|&k| k < sv.len()) {
                    let g = Array::<K, String>::gather(&x, &idx[..]);
                    ensure(g.0 == idx.iter().map(|&k| sv[k].clone()).collect::<Vec<_>>(), || "gather<String>".into())?;
                    let mut y = x.clone();
                    Array::<K, String>::scatter_assign_constant(&mut y, &a(idx), "c".to_string());
                    let mut e = sv.clone();
                    for &k in idx.iter() {
                        e[k] = "c".into();
                    }
                    ensure(y.0 == e, || "scatter_assign_constant<String>".into())?;
                    if idx.len() == sv.len() && !sv.is_empty() {
                        // scatter into len cells (a permutation or not)
                        let r = Array::<K, String>::scatter(&x, &idx[..], sv.len());
                        ensure(r.0.len() == sv.len(), || "scatter<String> length".into())?;
                        for j in 0..sv.len() {
                            let writers: Vec<&String> = (0..sv.len()).filter(|&k| idx[k] == j).map(|k| &sv[k]).collect();
                            if !writers.is_empty() {
                                ensure(writers.contains(&&r.0[j]), || "scatter<String> cell".into())?;
                            }
                        }
                    }
                }
                ensure(Array::<K, String>::get_range(&x, ..) == &sv[..], || "get_range<String>".into())?;
                // equality of arrays is element-wise, also at zero-sized and heap-allocated element types
                if BACKEND_NAME == "vec" {
                    use open_hypergraphs::array::vec::VecArray;
                    let (ua, ub) = (VecArray(vec![(); v.len()]), VecArray(vec![(); idx.len()]));
                    ensure((ua == ub) == (v.len() == idx.len()), || format!("VecArray<()> of lengths {} and {} compare {}", v.len(), idx.len(), ua == ub))?;
                    let (sa, sb) = (VecArray(v.iter().map(|k| format!("s{}", k)).collect::<Vec<_>>()), VecArray(idx.iter().map(|k| format!("s{}", k)).collect::<Vec<_>>()));
                    ensure((sa == sb) == (v == idx), || format!("VecArray<String> {:?} == {:?} is {}", v, idx, sa == sb))?;
                    let (na, nb) = (VecArray(v.clone()), VecArray(idx.clone()));
                    ensure((na == nb) == (v == idx) && na == na.clone(), || format!("VecArray<usize> {:?} == {:?} is {}", v, idx, na == nb))?;
                }
                // element-wise + and - at an element type whose operations do not commute: x[i] (op) y[i], in this order
                if BACKEND_NAME == "vec" && v.len() == idx.len() {
                    use open_hypergraphs::array::vec::VecArray;
                    let xs: Vec<Word> = v.iter().map(|k| Word(format!("a{}", k))).collect();
                    let ys: Vec<Word> = idx.iter().map(|k| Word(format!("b{}", k))).collect();
                    let sum = VecArray(xs.clone()) + VecArray(ys.clone());
                    let e: Vec<Word> = xs.iter().zip(ys.iter()).map(|(p, q)| Word(format!("({}+{})", p.0, q.0))).collect();
                    ensure(sum.0 == e, || format!("VecArray<Word> + VecArray<Word> = {:?}, expected {:?}", sum.0, e))?;
                    let dif = VecArray(xs.clone()) - VecArray(ys.clone());
                    let e: Vec<Word> = xs.iter().zip(ys.iter()).map(|(p, q)| Word(format!("({}-{})", p.0, q.0))).collect();
                    ensure(dif.0 == e, || format!("VecArray<Word> - VecArray<Word> = {:?}, expected {:?}", dif.0, e))?;
                }
                Ok(true)
            }
            "gather_permuted_runs" => {
                // index arrays of length 16 .. 25 that are piecewise consecutive: k runs of b consecutive indices (starting
                // at `off`, optionally followed by one more index continuing the last run) in EVERY order of the runs;
                // gather, and its inverse-direction companions scatter / scatter_assign on a permutation, are pointwise
                let mut r = i;
                let mut cfg = GATHER_RUNS[0];
                for c in GATHER_RUNS.iter() {
                    if r < fact(c.0) {
                        cfg = *c;
                        break;
                    }
                    r -= fact(c.0);
                }
                let (k, b, off, tail) = cfg;
                // unrank the permutation of the k runs (factorial number system)
                let mut pool: Vec<usize> = (0..k).collect();
                let mut order = vec![];
                let mut rr = r;
                for m in (1..=k).rev() {
                    let f = fact(m - 1);
                    order.push(pool.remove((rr / f) as usize));
                    rr %= f;
                }
                let mut idx: Vec<usize> = order.iter().flat_map(|&blk| (0..b).map(move |j| off + blk * b + j)).collect();
                if tail {
                    idx.push(off + k * b);
                }
                let len = off + k * b + 2;
                let v: Vec<usize> = (0..len).map(|j| 100 + 3 * j).collect();
                let g = Array::<K, usize>::gather(&a(&v), &idx[..]);
                ensure(g.0 == idx.iter().map(|&j| v[j]).collect::<Vec<_>>(), || format!("gather(100+3j, {:?}) = {:?}", idx, g.0))?;
                let sv: Vec<String> = v.iter().map(|y| format!("s{}", y)).collect();
                let gs = Array::<K, String>::gather(&<Arr<String> as Array<K, String>>::from_slice(&sv[..]), &idx[..]);
                ensure(gs.0 == idx.iter().map(|&j| sv[j].clone()).collect::<Vec<_>>(), || format!("gather<String>(.., {:?})", idx))?;
                // a gathered array gathered back through the inverse positions is the selected sub-array in index order
                let mut pos: Vec<usize> = (0..idx.len()).collect();
                pos.sort_by_key(|&q| idx[q]);
                let back = Array::<K, usize>::gather(&g, &pos[..]);
                let mut sorted_idx = idx.clone();
                sorted_idx.sort();
                ensure(back.0 == sorted_idx.iter().map(|&j| v[j]).collect::<Vec<_>>(), || format!("gather(gather(v, {:?}), inverse positions)", idx))?;
                Ok(true)
            }
            "long_arrays" => {
                let v = &self.long[i as usize];
                let n = v.len();
                let x = a(v);
                ensure(Array::<K, usize>::len(&x) == n && (0..n).all(|k| Array::<K, usize>::get(&x, k) == v[k]), || format!("len/get on {:?}", v))?;
                ensure(NaturalArray::<K>::max(&x) == v.iter().max().cloned(), || format!("max({:?}) = {:?}", v, NaturalArray::<K>::max(&x)))?;
                let mut cs = vec![0usize];
                for k in v.iter() {
                    cs.push(cs.last().unwrap() + k);
                }
                ensure(NaturalArray::<K>::cumulative_sum(&x).0 == cs, || format!("cumulative_sum({:?})", v))?;
                ensure(NaturalArray::<K>::sum(&x) == *cs.last().unwrap(), || format!("sum({:?})", v))?;
                check_sorting_perm(v, &OrdArray::<K, usize>::argsort(&x).0)?;
                ensure(NaturalArray::<K>::zero(&x).0 == (0..n).filter(|&j| v[j] == 0).collect::<Vec<_>>(), || format!("zero({:?})", v))?;
                let size = v.iter().max().map(|m| m + 1).unwrap_or(0);
                ensure(NaturalArray::<K>::bincount(&x, size).0 == (0..size).map(|j| v.iter().filter(|&&y| y == j).count()).collect::<Vec<_>>(), || format!("bincount({:?})", v))?;
                let (keys, counts) = NaturalArray::<K>::sparse_bincount(&x);
                let mut kc: Vec<(usize, usize)> = keys.0.iter().cloned().zip(counts.0.iter().cloned()).collect();
                kc.sort();
                let mut ek: Vec<(usize, usize)> = (0..size).map(|j| (j, v.iter().filter(|&&y| y == j).count())).filter(|p| p.1 > 0).collect();
                ek.sort();
                ensure(kc == ek, || format!("sparse_bincount({:?}) = {:?}", v, kc))?;
                let mut sa = vec![];
                for &k in v.iter() {
                    sa.extend(0..k);
                }
                ensure(NaturalArray::<K>::segmented_arange(&x).0 == sa, || format!("segmented_arange({:?})", v))?;
                let (q, r) = NaturalArray::<K>::quot_rem(&a(&v.iter().map(|y| y * 5 + 1).collect::<Vec<_>>()), 3);
                ensure(q.0 == v.iter().map(|y| (y * 5 + 1) / 3).collect::<Vec<_>>() && r.0 == v.iter().map(|y| (y * 5 + 1) % 3).collect::<Vec<_>>(), || format!("quot_rem on {:?}", v))?;
                let sc: Arr<usize> = 7 + &x;
                ensure(sc.0 == v.iter().map(|y| y + 7).collect::<Vec<_>>(), || format!("7 + &{:?}", v))?;
                let rev: Vec<usize> = (0..n).rev().collect();
                ensure(Array::<K, usize>::gather(&x, &rev[..]).0 == rev.iter().map(|&k| v[k]).collect::<Vec<_>>(), || format!("gather({:?}, reversed indices)", v))?;
                if n > 0 {
                    let sct = Array::<K, usize>::scatter(&x, &rev[..], n);
                    ensure(sct.0 == rev.iter().map(|&k| v[k]).collect::<Vec<_>>(), || format!("scatter({:?}, reversed indices)", v))?;
                }
                ensure(Array::<K, usize>::concatenate(&x, &x).0 == [v.clone(), v.clone()].concat(), || format!("concatenate({:?}, itself)", v))?;
                ensure((a(v) + a(v)).0 == v.iter().map(|y| 2 * y).collect::<Vec<_>>() && (a(v) - a(v)).0 == vec![0; n], || format!("x + x / x - x on {:?}", v))?;
                ensure(NaturalArray::<K>::mul_constant_add(&x, 3, &x).0 == v.iter().map(|y| 4 * y).collect::<Vec<_>>(), || format!("mul_constant_add on {:?}", v))?;
                let mut rp = vec![];
                for (c, y) in v.iter().zip(rev.iter()) {
                    for _ in 0..*c {
                        rp.push(*y);
                    }
                }
                ensure(NaturalArray::<K>::repeat(&x, &rev[..]).0 == rp, || format!("repeat({:?}, reversed indices)", v))?;
                let ones: Vec<usize> = vec![1; n];
                ensure(NaturalArray::<K>::segmented_sum(&a(&ones), &x).0 == *v, || format!("segmented_sum(ones, {:?})", v))?;
                if n > 0 {
                    ensure(NaturalArray::<K>::segmented_sum(&a(&[n]), &x).0 == vec![*cs.last().unwrap()], || format!("segmented_sum([n], {:?})", v))?;
                }
                let mut y = a(v);
                Array::<K, usize>::scatter_assign_constant(&mut y, &a(&rev), 9);
                ensure(y.0 == vec![9; n], || format!("scatter_assign_constant on {:?}", v))?;
                let mut y = a(&v.iter().map(|t| t + 1).collect::<Vec<_>>());
                NaturalArray::<K>::scatter_sub_assign(&mut y, &a(&rev), &a(&vec![1; n]));
                ensure(y.0 == *v, || format!("scatter_sub_assign on {:?}", v))?;
                // scatter forms with pairwise different right-hand sides along two index patterns (reversed, and a
                // stride-3 walk that is a permutation when 3 does not divide n): position i must meet value i
                let walk: Vec<usize> = (0..n).map(|k| (3 * k + 1) % n.max(1)).collect();
                for ixs in [&rev, &walk] {
                    let rhs: Vec<usize> = (0..n).map(|k| k + 1).collect();
                    let mut y = a(&vec![1000; n]);
                    NaturalArray::<K>::scatter_sub_assign(&mut y, &a(ixs), &a(&rhs));
                    let mut e = vec![1000usize; n];
                    for k in 0..n {
                        e[ixs[k]] -= rhs[k];
                    }
                    ensure(y.0 == e, || format!("scatter_sub_assign(ixs {:?}, rhs {:?}) = {:?}", ixs, rhs, y.0))?;
                    let distinct = (0..n).all(|p| (0..p).all(|q| ixs[p] != ixs[q]));
                    if distinct {
                        let mut y = a(&vec![0; n]);
                        Array::<K, usize>::scatter_assign(&mut y, &a(ixs), a(&rhs));
                        let mut e = vec![0usize; n];
                        for k in 0..n {
                            e[ixs[k]] = rhs[k];
                        }
                        ensure(y.0 == e, || format!("scatter_assign(ixs {:?}, rhs {:?}) = {:?}", ixs, rhs, y.0))?;
                        let g = Array::<K, usize>::gather(&a(&rhs), &ixs[..]);
                        ensure(g.0 == ixs.iter().map(|&k| rhs[k]).collect::<Vec<_>>(), || format!("gather(1..n, {:?})", ixs))?;
                    }
                }
                ensure(Array::<K, usize>::get_range(&x, ..) == &v[..] && (n == 0 || Array::<K, usize>::get_range(&x, 1..) == &v[1..]) && (n == 0 || Array::<K, usize>::get_range(&x, ..=n - 1) == &v[..]), || format!("get_range on {:?}", v))?;
                Ok(n >= 5)
            }
            "large_values" => {
                // all arrays of length <= 3 over the magnitudes in LARGE
                let v: Vec<usize> = ohmc_core::uni::s_unrank(10, 3, i).into_iter().map(|k| LARGE[k]).collect();
                let x = a(&v);
                if BACKEND_NAME == "vec" {
                    let (d, k) = open_hypergraphs::array::vec::to_dense(&v[..]);
                    ensure(d.len() == v.len() && is_dense_surjection(&d, k) && same_partition(&d, &v), || format!("to_dense({:?}) = ({:?},{})", v, d, k))?;
                }
                ensure(NaturalArray::<K>::max(&x) == v.iter().max().cloned(), || format!("max({:?})", v))?;
                check_sorting_perm(&v, &OrdArray::<K, usize>::argsort(&x).0)?;
                let (keys, counts) = NaturalArray::<K>::sparse_bincount(&x);
                let mut kc: Vec<(usize, usize)> = keys.0.iter().cloned().zip(counts.0.iter().cloned()).collect();
                kc.sort();
                let mut uniq = v.clone();
                uniq.sort();
                uniq.dedup();
                ensure(kc == uniq.iter().map(|u| (*u, v.iter().filter(|y| *y == u).count())).collect::<Vec<_>>(), || format!("sparse_bincount({:?}) = {:?}", v, kc))?;
                let size = v.iter().max().map(|m| m + 1).unwrap_or(0);
                let bc = NaturalArray::<K>::bincount(&x, size);
                ensure(bc.0.len() == size && (0..size).all(|j| bc.0[j] == v.iter().filter(|&&y| y == j).count()), || format!("bincount({:?}, {})", v, size))?;
                ensure(NaturalArray::<K>::sum(&x) == v.iter().sum::<usize>(), || format!("sum({:?})", v))?;
                // fill / arange / repeat at these sizes
                if let Some(&n) = v.first() {
                    ensure(<Arr<usize> as Array<K, usize>>::fill(3, n).0 == vec![3; n], || format!("fill(3,{})", n))?;
                    let ar = <Arr<usize> as NaturalArray<K>>::arange(&1, &(n + 1));
                    ensure(ar.0.len() == n && ar.0.iter().enumerate().all(|(j, y)| *y == j + 1), || format!("arange(1,{})", n + 1))?;
                    ensure(NaturalArray::<K>::max(&ar) == if n == 0 { None } else { Some(n) }, || format!("max(arange(1,{}))", n + 1))?;
                    ensure(NaturalArray::<K>::sum(&ar) == n * (n + 1) / 2, || format!("sum(arange(1,{}))", n + 1))?;
                    ensure(NaturalArray::<K>::repeat(&a(&[n]), &[5]).0 == vec![5; n], || format!("repeat([{}],[5])", n))?;
                }
                Ok(v.iter().any(|&y| y > 4))
            }
            "extreme_values" => {
                // all arrays of length <= 4 over values at the top of the usize range (and 0, 1): the primitives that
                // compare, count, permute or copy values without doing arithmetic on them must not treat any value
                // as special (no sentinel is available)
                const EXTREME: [usize; 7] = [0, 1, usize::MAX, usize::MAX - 1, usize::MAX / 2, usize::MAX / 2 + 1, 1 << 32];
                let v: Vec<usize> = ohmc_core::uni::s_unrank(7, 4, i).into_iter().map(|k| EXTREME[k]).collect();
                let n = v.len();
                let x = a(&v);
                ensure(NaturalArray::<K>::max(&x) == v.iter().max().cloned(), || format!("max({:?})", v))?;
                check_sorting_perm(&v, &OrdArray::<K, usize>::argsort(&x).0)?;
                let (keys, counts) = NaturalArray::<K>::sparse_bincount(&x);
                let mut kc: Vec<(usize, usize)> = keys.0.iter().cloned().zip(counts.0.iter().cloned()).collect();
                kc.sort();
                let mut uniq = v.clone();
                uniq.sort();
                uniq.dedup();
                ensure(keys.0.len() == counts.0.len() && kc == uniq.iter().map(|u| (*u, v.iter().filter(|y| *y == u).count())).collect::<Vec<_>>(), || format!("sparse_bincount({:?}) = ({:?},{:?})", v, keys.0, counts.0))?;
                ensure(NaturalArray::<K>::zero(&x).0 == (0..n).filter(|&j| v[j] == 0).collect::<Vec<_>>(), || format!("zero({:?})", v))?;
                if BACKEND_NAME == "vec" {
                    let (d, k) = open_hypergraphs::array::vec::to_dense(&v[..]);
                    ensure(d.len() == n && is_dense_surjection(&d, k) && same_partition(&d, &v), || format!("to_dense({:?}) = ({:?},{})", v, d, k))?;
                }
                let rev: Vec<usize> = (0..n).rev().collect();
                ensure(Array::<K, usize>::gather(&x, &rev[..]).0 == rev.iter().map(|&k| v[k]).collect::<Vec<_>>(), || format!("gather({:?}, reversed)", v))?;
                if n > 0 {
                    ensure(Array::<K, usize>::scatter(&x, &rev[..], n).0 == rev.iter().map(|&k| v[k]).collect::<Vec<_>>(), || format!("scatter({:?}, reversed)", v))?;
                    let mut y = a(&vec![7; n]);
                    Array::<K, usize>::scatter_assign(&mut y, &a(&rev), a(&v));
                    ensure(y.0 == rev.iter().map(|&k| v[k]).collect::<Vec<_>>(), || format!("scatter_assign(reversed, {:?})", v))?;
                    let mut y = a(&v);
                    Array::<K, usize>::scatter_assign_constant(&mut y, &a(&[0]), usize::MAX);
                    let mut e = v.clone();
                    e[0] = usize::MAX;
                    ensure(y.0 == e, || format!("scatter_assign_constant({:?}, [0], MAX)", v))?;
                }
                ensure(Array::<K, usize>::concatenate(&x, &x).0 == [v.clone(), v.clone()].concat(), || format!("concatenate({:?}, itself)", v))?;
                ensure(<Arr<usize> as Array<K, usize>>::fill(usize::MAX, n).0 == vec![usize::MAX; n], || "fill(MAX, n)".to_string())?;
                ensure(Array::<K, usize>::get_range(&x, ..) == &v[..], || format!("get_range({:?}, ..)", v))?;
                let sorted = OrdArray::<K, usize>::sort_by(&x, &x);
                let mut sv = v.clone();
                sv.sort();
                ensure(sorted.0 == sv, || format!("sort_by({:?} by itself) = {:?}", v, sorted.0))?;
                ensure((a(&v) - a(&v)).0 == vec![0; n], || format!("x - x on {:?}", v))?;
                // repeat counts and quot_rem / scalar ops on values that cannot overflow
                let (q, r) = NaturalArray::<K>::quot_rem(&x, 7);
                ensure(q.0 == v.iter().map(|y| y / 7).collect::<Vec<_>>() && r.0 == v.iter().map(|y| y % 7).collect::<Vec<_>>(), || format!("quot_rem({:?}, 7)", v))?;
                Ok(v.iter().any(|&y| y > 1))
            }
            "components_large_sparse" => {
                let n = LARGE[(i / 6) as usize];
                if n < 2 {
                    return Ok(false);
                }
                let pairs: Vec<(usize, usize)> = match i % 6 {
                    0 => vec![],
                    1 => vec![(0, 1), (n - 2, n - 1)],
                    2 => vec![(0, n - 1)],
                    3 => vec![(n - 1, 0), (n / 2, 0)],
                    4 => (1..n).map(|j| (j - 1, j)).collect(),
                    _ => (0..n / 2).map(|j| (j, n - 1 - j)).collect(),
                };
                let (s, t): (Vec<usize>, Vec<usize>) = pairs.iter().cloned().unzip();
                let (lab, k) = <Arr<usize> as NaturalArray<K>>::connected_components(&a(&s), &a(&t), n);
                // reference partition by a direct construction for these shapes
                let mut rep: Vec<usize> = (0..n).collect();
                for _ in 0..2 {
                    for &(x, y) in &pairs {
                        let (rx, ry) = (rep[x], rep[y]);
                        if rx != ry && pairs.len() < 8 {
                            for r in rep.iter_mut() {
                                if *r == ry {
                                    *r = rx;
                                }
                            }
                        }
                    }
                }
                if pairs.len() >= 8 {
                    if i % 6 == 4 {
                        rep = vec![0; n];
                    } else {
                        rep = (0..n).map(|j| j.min(n - 1 - j)).collect();
                    }
                }
                let mut distinct = rep.clone();
                distinct.sort();
                distinct.dedup();
                ensure(lab.0.len() == n && k == distinct.len() && is_dense_surjection(&lab.0, k), || format!("components on {} nodes with {} edges: k = {}, expected {}", n, pairs.len(), k, distinct.len()))?;
                // same kernel: compare through a map representative -> label
                let mut seen: std::collections::HashMap<usize, usize> = Default::default();
                let mut used: std::collections::HashMap<usize, usize> = Default::default();
                for j in 0..n {
                    let e = *seen.entry(rep[j]).or_insert(lab.0[j]);
                    let b = *used.entry(lab.0[j]).or_insert(rep[j]);
                    ensure(e == lab.0[j] && b == rep[j], || format!("components on {} nodes with {} edges: node {} is in the wrong class", n, pairs.len(), j))?;
                }
                Ok(true)
            }
            "components_structured" => {
                let (s, t, n) = &self.big_graphs[i as usize];
                let (lab, k) = <Arr<usize> as NaturalArray<K>>::connected_components(&a(s), &a(t), *n);
                let pairs: Vec<(usize, usize)> = s.iter().cloned().zip(t.iter().cloned()).collect();
                let (rq, rk) = classes(*n, &pairs);
                ensure(lab.0.len() == *n && k == rk && is_dense_surjection(&lab.0, k) && same_partition(&lab.0, &rq), || format!("components of the structured graph on {} nodes with edges {:?}: k = {} (expected {}), labels {:?}", n, pairs, k, rk, lab.0))?;
                Ok(true)
            }
            other => Err(format!("unknown family {}", other)),
        }
    }
}

fn check_sorting_perm<T: Ord + std::fmt::Debug>(v: &[T], p: &[usize]) -> CR {
    ensure(p.len() == v.len(), || format!("argsort({:?}) has length {}", v, p.len()))?;
    let mut seen = vec![false; v.len()];
    for &k in p {
        ensure(k < v.len() && !seen[k], || format!("argsort({:?}) = {:?} is not a permutation", v, p))?;
        seen[k] = true;
    }
    for w in p.windows(2) {
        ensure(v[w[0]] <= v[w[1]], || format!("argsort({:?}) = {:?} does not sort", v, p))?;
    }
    Ok(())
}
