// C08 — segmented arrays (IndexedCoproduct) are lists of lists (included once per backend).

pub struct C08 {
    /// (segments, codomain of the values)
    pub segs: Vec<(Vec<Vec<usize>>, usize)>,
    /// arguments of the one-argument families (quick: segs plus all 4-segment arrays over codomains <= 2; thorough: up to 5 segments of length <= 3)
    pub singles: Vec<(Vec<Vec<usize>>, usize)>,
    pub raw_sizes: Vec<Vec<usize>>,
    pub small_maps: Vec<(Vec<usize>, usize)>,
    pub families: Vec<(&'static str, u64)>,
}

fn dec_ic(ic: &IC<FF>) -> Result<Vec<Vec<usize>>, String> {
    decode_seg(ic, "result")
}

fn labels_for(c: usize) -> Vec<String> {
    (0..c).map(|k| format!("L{}", k % 2)).collect()
}

impl C08 {
    pub fn new(quick: bool) -> C08 {
        let mut segs = vec![];
        let cmax = if quick { 3 } else { 3 };
        let mmax = if quick { 3 } else { 4 };
        for c in 0..=cmax {
            let ls = ohmc_core::uni::lists(c, 2);
            for m in 0..=mmax {
                if m == 4 && c == 3 {
                    continue;
                }
                let cnt = (ls.len() as u64).pow(m as u32);
                for mut i in 0..cnt {
                    let mut v = vec![];
                    for _ in 0..m {
                        v.push(ls[(i % ls.len() as u64) as usize].clone());
                        i /= ls.len() as u64;
                    }
                    segs.push((v, c));
                }
            }
        }
        let mut singles = segs.clone();
        if quick {
            // four segments (over codomains <= 2) for the one-argument families: re-indexing maps of length 3 into 4
            // segments can skip, repeat and reorder at once
            for c in 0..=2usize {
                let ls = ohmc_core::uni::lists(c, 2);
                let cnt = (ls.len() as u64).pow(4);
                for mut i in 0..cnt {
                    let mut v = vec![];
                    for _ in 0..4 {
                        v.push(ls[(i % ls.len() as u64) as usize].clone());
                        i /= ls.len() as u64;
                    }
                    singles.push((v, c));
                }
            }
        }
        if !quick {
            singles.clear();
            for c in 0..=3usize {
                let ls = ohmc_core::uni::lists(c, if c == 3 { 2 } else { 3 });
                for m in 0..=(if c == 3 { 4usize } else { 5 }) {
                    let cnt = (ls.len() as u64).pow(m as u32);
                    for mut i in 0..cnt {
                        let mut v = vec![];
                        for _ in 0..m {
                            v.push(ls[(i % ls.len() as u64) as usize].clone());
                            i /= ls.len() as u64;
                        }
                        singles.push((v, c));
                    }
                }
            }
        }
        let n1 = singles.len() as u64;
        let raw_sizes = ohmc_core::uni::lists(4, 3);
        let mut small_maps = vec![];
        for n in 0..=4usize {
            for a in 0..=4usize {
                for t in ohmc_core::uni::tables(a, n) {
                    small_maps.push((t, n));
                }
            }
        }
        let ns = segs.len() as u64;
        let families: Vec<(&'static str, u64)> = vec![
            ("new", raw_sizes.len() as u64 * 12 * 11),
            ("basic", n1),
            ("pairs", ns * ns),
            ("map_indexes", n1 * small_maps.len() as u64),
            ("map_values", n1 * small_maps.len() as u64),
            ("flatmap", ns * ns),
            ("iterators", n1),
            ("operations_new", 4 * 4 * 4),
            ("long", (0..=8u32).map(|m| 3u64.pow(m)).sum()),
        ];
        C08 { segs, singles, raw_sizes, small_maps, families }
    }

    pub fn run(&self, fam: &str, i: u64, loc: &mut ohmc_core::explore::Local) {
        let mut runs = 0u64;
        let mut nontrivial = false;
        let st = crate::adv::explore_tapes(usize::MAX, 4096, || catch(|| self.case(fam, i)), |tape, r, _| {
            runs += 1;
            match r {
                Ok(Ok(nt)) => nontrivial |= nt,
                Ok(Err(msg)) => loc.violation(&format!("wrong:{}", fam), serde_json::json!({"family": fam, "index": i, "tape": tape, "why": msg, "backend": BACKEND_NAME})),
                Err(p) => loc.violation(&format!("panic:{}", fam), serde_json::json!({"family": fam, "index": i, "tape": tape, "panic": p, "backend": BACKEND_NAME})),
            }
        });
        if st.diverged > 0 {
            loc.violation("choice-tape-diverged", serde_json::json!({"family": fam, "index": i}));
        }
        loc.trans(runs);
        if nontrivial {
            loc.nontrivial();
        }
        loc.outcome(&(fam, nontrivial, runs));
        loc.sample(|| serde_json::json!({"family": fam, "index": i}));
    }

    fn case(&self, fam: &str, i: u64) -> Result<bool, String> {
        let ns = self.segs.len() as u64;
        let nm = self.small_maps.len() as u64;
        match fam {
            "new" => {
                // sizes, declared codomain of the size map, length of the value array
                let sizes = &self.raw_sizes[(i / 132) as usize];
                let declared = ((i / 11) % 12) as usize;
                let vl = (i % 11) as usize;
                let sum: usize = sizes.iter().sum();
                if declared > sum + 2 || vl > sum + 1 {
                    return Ok(false);
                }
                let values = ff(&vec![0; vl], 3);
                let expect = declared == sum + 1 && vl == sum;
                let got = IndexedCoproduct::new(ff(sizes, declared), values.clone());
                ensure(got.is_some() == expect, || format!("IndexedCoproduct::new(sizes {:?} -> {}, {} values) accepted = {}", sizes, declared, vl, got.is_some()))?;
                if let Some(g) = got {
                    ensure(g.sources.table.0 == *sizes && g.sources.target == declared && g.values.table.0.len() == vl, || "new() altered the data".into())?;
                }
                // from_semifinite computes the codomain itself: accepts iff the sizes sum to the value length
                let got = IndexedCoproduct::from_semifinite(SemifiniteFunction(Arr(sizes.clone())), values);
                ensure(got.is_some() == (vl == sum), || format!("from_semifinite(sizes {:?}, {} values) accepted = {}", sizes, vl, got.is_some()))?;
                if let Some(g) = got {
                    ensure(g.sources.table.0 == *sizes && g.sources.target == sum + 1, || format!("from_semifinite: size map {:?} -> {}", g.sources.table.0, g.sources.target))?;
                }
                // label-valued
                let lv: SF<String> = SemifiniteFunction(Arr(vec!["v".to_string(); vl]));
                let got = IndexedCoproduct::new(ff(sizes, declared), lv.clone());
                ensure(got.is_some() == expect, || format!("IndexedCoproduct::new over labels (sizes {:?} -> {}, {} values) accepted = {}", sizes, declared, vl, got.is_some()))?;
                let got = IndexedCoproduct::from_semifinite(SemifiniteFunction(Arr(sizes.clone())), lv);
                ensure(got.is_some() == (vl == sum), || "from_semifinite over labels".to_string())?;
                // nested: the values are themselves a segmented array with `vl` segments of 0, 1, 2, 0, 1, 2, ... elements;
                // its length as a value is its number of segments, whatever their sizes
                let inner_sizes: Vec<usize> = (0..vl).map(|k| k % 3).collect();
                let inner_total: usize = inner_sizes.iter().sum();
                let inner = IndexedCoproduct::new(ff(&inner_sizes, inner_total + 1), ff(&vec![0; inner_total], 3)).ok_or("inner segmented array refused")?;
                let got = IndexedCoproduct::new(ff(sizes, declared), inner.clone());
                ensure(got.is_some() == expect, || format!("IndexedCoproduct::new(sizes {:?} -> {}, a segmented array of {} segments with sizes {:?}) accepted = {}", sizes, declared, vl, inner_sizes, got.is_some()))?;
                let got = IndexedCoproduct::from_semifinite(SemifiniteFunction(Arr(sizes.clone())), inner);
                ensure(got.is_some() == (vl == sum), || format!("from_semifinite(sizes {:?}, a segmented array of {} segments) accepted = {}", sizes, vl, got.is_some()))?;
                Ok(!expect)
            }
            "basic" => {
                let (x, c) = &self.singles[i as usize];
                let ic = seg(x, *c);
                ensure(dec_ic(&ic)? == *x, || "build/decode round trip".into())?;
                ensure(ic.len() == x.len() && HasLen::<K>::len(&ic) == x.len(), || "len".into())?;
                let flat: Vec<usize> = x.iter().flatten().cloned().collect();
                let s = IndexedCoproduct::singleton(ff(&flat, *c));
                ensure(dec_ic(&s)? == vec![flat.clone()], || format!("singleton({:?}) = {:?}", flat, dec_ic(&s)))?;
                let e = IndexedCoproduct::elements(ff(&flat, *c));
                ensure(dec_ic(&e)? == flat.iter().map(|v| vec![*v]).collect::<Vec<_>>(), || format!("elements({:?})", flat))?;
                let ini = IC::<FF>::initial(*c);
                ensure(dec_ic(&ini)?.is_empty() && ini.values.target == *c, || "initial".into())?;
                // label-valued singleton / elements
                let ls: Vec<String> = flat.iter().map(|v| format!("x{}", v)).collect();
                let s = IndexedCoproduct::singleton(sf(&ls));
                ensure(decode_seg_sf(&s, "singleton")? == vec![ls.clone()], || "singleton over labels".into())?;
                let e = IndexedCoproduct::elements(sf(&ls));
                ensure(decode_seg_sf(&e, "elements")? == ls.iter().map(|v| vec![v.clone()]).collect::<Vec<_>>(), || "elements over labels".into())?;
                Ok(x.len() >= 2)
            }
            "pairs" => {
                let ((x, cx), (y, cy)) = (&self.segs[(i / ns) as usize], &self.segs[(i % ns) as usize]);
                let (a, b) = (seg(x, *cx), seg(y, *cy));
                let cat: Vec<Vec<usize>> = x.iter().chain(y.iter()).cloned().collect();
                match a.coproduct(&b) {
                    None => ensure(cx != cy, || "coproduct of segmented arrays over the same codomain is None".into())?,
                    Some(r) => {
                        ensure(cx == cy, || "coproduct over different codomains is Some".into())?;
                        ensure(dec_ic(&r)? == cat && r.values.target == *cx, || format!("coproduct({:?},{:?}) = {:?}", x, y, dec_ic(&r)))?;
                    }
                }
                let r = a.tensor(&b);
                let ten: Vec<Vec<usize>> = x.iter().cloned().chain(y.iter().map(|l| l.iter().map(|v| v + cx).collect())).collect();
                ensure(dec_ic(&r)? == ten && r.values.target == cx + cy, || format!("tensor({:?},{:?}) = {:?} -> {}", x, y, dec_ic(&r), r.values.target))?;
                // label-valued coproduct always succeeds
                let (la, lb) = (a.map_semifinite(&sf(&labels_for(*cx))).ok_or("map_semifinite is None for a label array of the right length")?, b.map_semifinite(&sf(&labels_for(*cy))).ok_or("map_semifinite is None for a label array of the right length")?);
                let r = la.coproduct(&lb).ok_or("coproduct over labels is None")?;
                let e: Vec<Vec<String>> = x.iter().map(|l| l.iter().map(|&v| labels_for(*cx)[v].clone()).collect()).chain(y.iter().map(|l| l.iter().map(|&v| labels_for(*cy)[v].clone()).collect())).collect();
                ensure(decode_seg_sf(&r, "coproduct over labels")? == e, || "coproduct over labels".into())?;
                Ok(!x.is_empty() && !y.is_empty())
            }
            "map_indexes" => {
                let (x, c) = &self.singles[(i / nm) as usize];
                let (m, mt) = &self.small_maps[(i % nm) as usize];
                let ic = seg(x, *c);
                let map = ff(m, *mt);
                let r = ic.map_indexes(&map);
                let v = ic.indexed_values(&map);
                if *mt != x.len() {
                    ensure(r.is_none() && v.is_none(), || format!("re-indexing {} segments along a map into {} is Some", x.len(), mt))?;
                    return Ok(true);
                }
                let e: Vec<Vec<usize>> = m.iter().map(|&k| x[k].clone()).collect();
                let r = r.ok_or_else(|| format!("map_indexes({:?}, {:?}) is None", x, m))?;
                ensure(dec_ic(&r)? == e && r.values.target == *c, || format!("map_indexes({:?}, {:?}) = {:?}", x, m, dec_ic(&r)))?;
                let v = v.ok_or("indexed_values is None")?;
                ensure(v.table.0 == e.iter().flatten().cloned().collect::<Vec<_>>() && v.target == *c, || format!("indexed_values({:?},{:?}) = {:?}", x, m, v.table.0))?;
                // label-valued
                let lic = ic.map_semifinite(&sf(&labels_for(*c))).ok_or("map_semifinite None")?;
                let r = lic.map_indexes(&map).ok_or("map_indexes over labels is None")?;
                let el: Vec<Vec<String>> = e.iter().map(|l| l.iter().map(|&v| labels_for(*c)[v].clone()).collect()).collect();
                ensure(decode_seg_sf(&r, "map_indexes over labels")? == el, || "map_indexes over labels".into())?;
                Ok(m.len() >= 2)
            }
            "map_values" => {
                let (x, c) = &self.singles[(i / nm) as usize];
                let (m, mt) = &self.small_maps[(i % nm) as usize];
                // here the small map is read as a function g: |m| -> mt applied to the values
                let ic = seg(x, *c);
                let g = ff(m, *mt);
                let r = ic.map_values(&g);
                if m.len() != *c {
                    ensure(r.is_none(), || format!("map_values with g: {} -> {} on values in {} is Some", m.len(), mt, c))?;
                } else {
                    let r = r.ok_or("map_values is None")?;
                    let e: Vec<Vec<usize>> = x.iter().map(|l| l.iter().map(|&v| m[v]).collect()).collect();
                    ensure(dec_ic(&r)? == e && r.values.target == *mt, || format!("map_values({:?},{:?}) = {:?}", x, m, dec_ic(&r)))?;
                }
                let labels = labels_for(m.len());
                let r = ic.map_semifinite(&sf(&labels));
                if m.len() != *c {
                    ensure(r.is_none(), || "map_semifinite with a label array of the wrong length is Some".into())?;
                    return Ok(true);
                }
                let r = r.ok_or("map_semifinite is None")?;
                let e: Vec<Vec<String>> = x.iter().map(|l| l.iter().map(|&v| labels[v].clone()).collect()).collect();
                ensure(decode_seg_sf(&r, "map_semifinite")? == e, || "map_semifinite".into())?;
                Ok(!x.is_empty())
            }
            "flatmap" => {
                let ((x, cx), (y, cy)) = (&self.segs[(i / ns) as usize], &self.segs[(i % ns) as usize]);
                let mut nt = false;
                let (a, b) = (seg(x, *cx), seg(y, *cy));
                if *cx == y.len() {
                    // composable: values of x index the segments of y
                    let r = a.flatmap(&b);
                    let e: Vec<Vec<usize>> = x.iter().map(|l| l.iter().flat_map(|&j| y[j].iter().cloned()).collect()).collect();
                    ensure(dec_ic(&r)? == e && r.values.target == *cy, || format!("flatmap({:?},{:?}) = {:?}", x, y, dec_ic(&r)))?;
                    nt = true;
                }
                let total: usize = x.iter().map(|l| l.len()).sum();
                if total == y.len() {
                    // flatmap_sources: every value position of x owns one segment of y
                    let r = a.flatmap_sources(&b);
                    let mut e = vec![];
                    let mut p = 0;
                    for l in x.iter() {
                        let mut seg_: Vec<usize> = vec![];
                        for _ in 0..l.len() {
                            seg_.extend(y[p].iter().cloned());
                            p += 1;
                        }
                        e.push(seg_);
                    }
                    ensure(dec_ic(&r)? == e && r.values.target == *cy, || format!("flatmap_sources({:?},{:?}) = {:?}", x, y, dec_ic(&r)))?;
                    let lb = b.map_semifinite(&sf(&labels_for(*cy))).ok_or("map_semifinite None")?;
                    let r = a.flatmap_sources(&lb);
                    let el: Vec<Vec<String>> = e.iter().map(|l| l.iter().map(|&v| labels_for(*cy)[v].clone()).collect()).collect();
                    ensure(decode_seg_sf(&r, "flatmap_sources over labels")? == el, || "flatmap_sources over labels".into())?;
                    nt = true;
                }
                Ok(nt)
            }
            "iterators" => {
                let (x, c) = &self.singles[i as usize];
                let n = x.len();
                // all call sequences over {next, len, size_hint} of length n + 2
                let depth = n + 2;
                let total = 3u64.pow(depth as u32);
                for code in 0..total {
                    let mut it = seg(x, *c).into_iter();
                    let labels = labels_for(*c);
                    let mut lit = seg(x, *c).map_semifinite(&sf(&labels)).ok_or("map_semifinite None")?.into_iter();
                    let mut cursor = 0usize;
                    let mut cc = code;
                    for step in 0..depth {
                        let op = cc % 3;
                        cc /= 3;
                        let remaining = n - cursor.min(n);
                        match op {
                            0 => {
                                let (g, gl) = (it.next(), lit.next());
                                if cursor < n {
                                    let g = g.ok_or_else(|| format!("next() #{} of {:?} is None", cursor, x))?;
                                    ensure(g.table.0 == x[cursor] && g.target == *c, || format!("next() #{} of {:?} = {:?}", cursor, x, g.table.0))?;
                                    let gl = gl.ok_or("label next() is None")?;
                                    ensure(gl.0 .0 == x[cursor].iter().map(|&v| labels[v].clone()).collect::<Vec<_>>(), || format!("label next() #{}", cursor))?;
                                    cursor += 1;
                                } else {
                                    ensure(g.is_none() && gl.is_none(), || format!("next() after the end of {:?} is Some", x))?;
                                }
                            }
                            1 => {
                                ensure(ExactSizeIterator::len(&it) == remaining, || format!("len() after {} of {} next() calls (step {}) = {}", cursor, n, step, ExactSizeIterator::len(&it)))?;
                                ensure(ExactSizeIterator::len(&lit) == remaining, || format!("label len() after {} of {} next() calls = {}", cursor, n, ExactSizeIterator::len(&lit)))?;
                            }
                            _ => {
                                ensure(it.size_hint() == (remaining, Some(remaining)), || format!("size_hint() after {} of {} next() calls = {:?}", cursor, n, it.size_hint()))?;
                                ensure(lit.size_hint() == (remaining, Some(remaining)), || format!("label size_hint() after {} of {} = {:?}", cursor, n, lit.size_hint()))?;
                            }
                        }
                    }
                }
                // the jumping and consuming adaptors an iterator type may override: all call sequences over
                // {next, nth(1), nth(n + 1) (a strict overshoot), len} of length n + 1, each followed by last()
                let depth2 = n + 1;
                for code in 0..4u64.pow(depth2 as u32) {
                    let mut it = seg(x, *c).into_iter();
                    let labels = labels_for(*c);
                    let mut lit = seg(x, *c).map_semifinite(&sf(&labels)).ok_or("map_semifinite None")?.into_iter();
                    let mut cursor = 0usize;
                    let mut cc = code;
                    for step in 0..depth2 {
                        let op = cc % 4;
                        cc /= 4;
                        let jump = match op {
                            0 => Some(0),
                            1 => Some(1),
                            2 => Some(n + 1),
                            _ => None,
                        };
                        match jump {
                            Some(k) => {
                                let (g, gl) = if k == 0 { (it.next(), lit.next()) } else { (it.nth(k), lit.nth(k)) };
                                if cursor + k < n {
                                    let at = cursor + k;
                                    let g = g.ok_or_else(|| format!("nth({}) after {} of {} is None", k, cursor, n))?;
                                    ensure(g.table.0 == x[at] && g.target == *c, || format!("nth({}) after {} slices of {:?} = {:?}", k, cursor, x, g.table.0))?;
                                    let gl = gl.ok_or("label nth() is None")?;
                                    ensure(gl.0 .0 == x[at].iter().map(|&v| labels[v].clone()).collect::<Vec<_>>(), || format!("label nth({}) after {}", k, cursor))?;
                                    cursor = at + 1;
                                } else {
                                    ensure(g.is_none() && gl.is_none(), || format!("nth({}) after {} of {} slices of {:?} is Some", k, cursor, n, x))?;
                                    cursor = n;
                                }
                            }
                            None => {
                                let remaining = n - cursor;
                                let got = catch(|| (ExactSizeIterator::len(&it), it.size_hint(), ExactSizeIterator::len(&lit), lit.size_hint())).map_err(|p| format!("len()/size_hint() after {} of {} slices (step {}) panicked: {}", cursor, n, step, p))?;
                                ensure(got == (remaining, (remaining, Some(remaining)), remaining, (remaining, Some(remaining))), || format!("len/size_hint after {} of {} slices (jumps included) = {:?}", cursor, n, got))?;
                            }
                        }
                    }
                    let (l, ll) = (it.last(), lit.last());
                    if cursor < n {
                        ensure(l.map(|f| f.table.0) == Some(x[n - 1].clone()), || format!("last() after {} of {} slices of {:?}", cursor, n, x))?;
                        ensure(ll.map(|f| f.0 .0) == Some(x[n - 1].iter().map(|&v| labels[v].clone()).collect::<Vec<_>>()), || format!("label last() after {} of {}", cursor, n))?;
                    } else {
                        ensure(l.is_none() && ll.is_none(), || format!("last() on an exhausted iterator over {:?} is Some", x))?;
                    }
                }
                // collect() relies on the length report
                let all: Vec<Vec<usize>> = seg(x, *c).into_iter().map(|f| f.table.0).collect();
                ensure(all == *x, || "into_iter().collect()".into())?;
                Ok(n >= 1)
            }
            "operations_new" => {
                let (lx, la, lb) = ((i / 16) as usize, ((i / 4) % 4) as usize, (i % 4) as usize);
                let x: SF<u8> = sf(&vec![7u8; lx]);
                let a = seg_sf(&vec![vec![1u8, 2]; la]);
                let b = seg_sf(&vec![vec![3u8]; lb]);
                let r = Operations::new(x, a, b);
                let expect = lx == la && lx == lb;
                ensure(r.is_some() == expect, || format!("Operations::new with {} labels, {} source types, {} target types accepted = {}", lx, la, lb, r.is_some()))?;
                if let Some(o) = r {
                    ensure(o.len() == lx, || "Operations::len".into())?;
                }
                let o = Operations::<K, u8, u8>::singleton(9, sf(&[1u8, 2]), sf(&[3u8]));
                ensure(o.len() == 1 && o.x.0 .0 == vec![9] && decode_seg_sf(&o.a, "a")? == vec![vec![1, 2]] && decode_seg_sf(&o.b, "b")? == vec![vec![3]], || "Operations::singleton".into())?;
                Ok(!expect)
            }
            "long" => {
                // up to 8 segments, each one of [], [0], [1,0], over a codomain of 2
                let opts: [Vec<usize>; 3] = [vec![], vec![0], vec![1, 0]];
                let mut r = i;
                let mut m = 0u32;
                while r >= 3u64.pow(m) {
                    r -= 3u64.pow(m);
                    m += 1;
                }
                let mut x: Vec<Vec<usize>> = vec![];
                for _ in 0..m {
                    x.push(opts[(r % 3) as usize].clone());
                    r /= 3;
                }
                let n = x.len();
                let ic = seg(&x, 2);
                ensure(dec_ic(&ic)? == x && ic.len() == n, || "build/decode/len".into())?;
                // re-index along identity, reversal, a constant map, every second segment, a doubled list
                let maps: Vec<Vec<usize>> = vec![(0..n).collect(), (0..n).rev().collect(), vec![n.saturating_sub(1); n.min(3)], (0..n).step_by(2).collect(), (0..n).chain(0..n).collect()];
                for mp in maps {
                    if n == 0 && !mp.is_empty() {
                        continue;
                    }
                    let r = ic.map_indexes(&ff(&mp, n)).ok_or_else(|| format!("map_indexes({:?}, {:?}) is None", x, mp))?;
                    let e: Vec<Vec<usize>> = mp.iter().map(|&k| x[k].clone()).collect();
                    ensure(dec_ic(&r)? == e, || format!("map_indexes({:?}, {:?}) = {:?}", x, mp, dec_ic(&r)))?;
                }
                let sw = ic.map_values(&ff(&[1, 0], 2)).ok_or("map_values None")?;
                ensure(dec_ic(&sw)? == x.iter().map(|l| l.iter().map(|v| 1 - v).collect()).collect::<Vec<Vec<usize>>>(), || format!("map_values(swap) on {:?}", x))?;
                let co = ic.coproduct(&ic).ok_or("coproduct None")?;
                ensure(dec_ic(&co)? == [x.clone(), x.clone()].concat(), || format!("coproduct({:?}, itself)", x))?;
                let te = ic.tensor(&ic);
                ensure(dec_ic(&te)? == x.iter().cloned().chain(x.iter().map(|l| l.iter().map(|v| v + 2).collect())).collect::<Vec<_>>() && te.values.target == 4, || format!("tensor({:?}, itself)", x))?;
                // flatmap into a fixed two-segment array; flatmap_sources over one segment per value
                let y = seg(&[vec![2, 0, 1], vec![]], 3);
                let fm = ic.flatmap(&y);
                ensure(dec_ic(&fm)? == x.iter().map(|l| l.iter().flat_map(|&j| if j == 0 { vec![2, 0, 1] } else { vec![] }).collect()).collect::<Vec<Vec<usize>>>() && fm.values.target == 3, || format!("flatmap on {:?}", x))?;
                let total: usize = x.iter().map(|l| l.len()).sum();
                let z: Vec<Vec<usize>> = (0..total).map(|k| (0..(k % 3)).collect()).collect();
                let fs = ic.flatmap_sources(&seg(&z, 2));
                let mut e = vec![];
                let mut p = 0;
                for l in x.iter() {
                    let mut sg: Vec<usize> = vec![];
                    for _ in 0..l.len() {
                        sg.extend(z[p].iter().cloned());
                        p += 1;
                    }
                    e.push(sg);
                }
                ensure(dec_ic(&fs)? == e, || format!("flatmap_sources on {:?}", x))?;
                // iterator: next() all the way with the length report after every step
                let mut it = seg(&x, 2).into_iter();
                for k in 0..=n {
                    ensure(ExactSizeIterator::len(&it) == n - k && it.size_hint() == (n - k, Some(n - k)), || format!("len()/size_hint() after {} of {} next() calls", k, n))?;
                    let g = it.next();
                    if k < n {
                        ensure(g.map(|f| f.table.0) == Some(x[k].clone()), || format!("next() #{} of {:?}", k, x))?;
                    } else {
                        ensure(g.is_none(), || "next() after the end is Some".into())?;
                    }
                }
                Ok(n >= 4)
            }
            other => Err(format!("unknown family {}", other)),
        }
    }
}
