//! `AdvKind`: a second, independent implementation of the array interface.
//!
//! It satisfies the documented array contract but resolves the four open choices the contract
//! leaves (tie order of `argsort`, numbering of connected components, row order of
//! `sparse_bincount`, filler of `scatter`) according to a *choice tape* owned by the explorer.
//! With an empty tape every choice takes alternative 0, which is the Vec backend's answer.
use core::ops::{Add, Deref, DerefMut, RangeBounds, Sub};
use open_hypergraphs::array::*;
use std::cell::RefCell;

#[derive(PartialEq, Eq, Clone, Debug)]
pub struct AdvKind {}

#[derive(Clone, Debug)]
pub struct AdvArray<T>(pub Vec<T>);

impl ArrayKind for AdvKind {
    type Type<T> = AdvArray<T>;
    type I = usize;
    type Index = AdvArray<usize>;
    type Slice<'a, T: 'a> = &'a [T];
}

impl<T: PartialEq> PartialEq for AdvArray<T> {
    fn eq(&self, other: &Self) -> bool {
        self.0 == other.0
    }
}

impl AsRef<AdvArray<usize>> for AdvArray<usize> {
    fn as_ref(&self) -> &AdvArray<usize> {
        self
    }
}
impl AsMut<AdvArray<usize>> for AdvArray<usize> {
    fn as_mut(&mut self) -> &mut AdvArray<usize> {
        self
    }
}
impl<T> Deref for AdvArray<T> {
    type Target = Vec<T>;
    fn deref(&self) -> &Vec<T> {
        &self.0
    }
}
impl<T> DerefMut for AdvArray<T> {
    fn deref_mut(&mut self) -> &mut Vec<T> {
        &mut self.0
    }
}

// ---------------------------------------------------------------------------------------------
// choice tape

pub const CH_ARGSORT: u8 = 0;
pub const CH_COMPONENTS: u8 = 1;
pub const CH_SPARSE: u8 = 2;
pub const CH_FILLER: u8 = 3;

#[derive(Clone, Copy, Debug, PartialEq, Eq, Hash)]
pub struct Choice {
    pub kind: u8,
    pub arity: u32,
    pub taken: u32,
}

#[derive(Default)]
struct Tape {
    prefix: Vec<u32>,
    log: Vec<Choice>,
    bad: bool,
}

thread_local! {
    static TAPE: RefCell<Tape> = RefCell::new(Tape::default());
}

fn choose(kind: u8, arity: u32) -> u32 {
    if arity <= 1 {
        return 0;
    }
    TAPE.with(|t| {
        let mut t = t.borrow_mut();
        let pos = t.log.len();
        let mut taken = if pos < t.prefix.len() { t.prefix[pos] } else { 0 };
        if taken >= arity {
            // a replayed prefix met a different choice point: nondeterminism not owned
            t.bad = true;
            taken = 0;
        }
        t.log.push(Choice { kind, arity, taken });
        taken
    })
}

/// Run `f` with the given tape prefix (choices beyond the prefix take alternative 0).
/// Returns the result, the log of choice points met, and whether the prefix was inconsistent.
pub fn with_tape<R>(prefix: &[u32], f: impl FnOnce() -> R) -> (R, Vec<Choice>, bool) {
    TAPE.with(|t| {
        let mut t = t.borrow_mut();
        t.prefix = prefix.to_vec();
        t.log.clear();
        t.bad = false;
    });
    let r = f();
    let (log, bad) = TAPE.with(|t| {
        let mut t = t.borrow_mut();
        t.prefix.clear();
        (std::mem::take(&mut t.log), t.bad)
    });
    (r, log, bad)
}

/// Reset the tape (after a caught panic inside `with_tape`).
pub fn reset_tape() -> Vec<Choice> {
    TAPE.with(|t| {
        let mut t = t.borrow_mut();
        t.prefix.clear();
        t.bad = false;
        std::mem::take(&mut t.log)
    })
}

fn perm_arity(n: usize) -> u32 {
    match n {
        0 | 1 => 1,
        2 => 2,
        3 => 6,
        _ => 9,
    }
}

/// the p-th variant permutation of 0..n (p < perm_arity(n)); p = 0 is the identity.
/// For n <= 3 these are all permutations; for larger n nine representatives: identity, reversal, the two
/// rotations, swaps at either end, and three that keep both end points fixed.
fn perm_variant(n: usize, p: u32) -> Vec<usize> {
    let mut v: Vec<usize> = (0..n).collect();
    if n < 2 {
        return v;
    }
    if n == 2 {
        if p == 1 {
            v.swap(0, 1);
        }
        return v;
    }
    match p {
        0 => {}
        1 => v.reverse(),
        2 => v.rotate_left(1),
        3 => v.rotate_right(1),
        4 => v.swap(0, 1),
        5 => v.swap(n - 2, n - 1),
        // permutations that keep both end points (n >= 4 only)
        6 => v.swap(1, 2),
        7 => v[1..n - 1].reverse(),
        _ => v.swap(n / 2 - 1, n / 2 + (n % 2)),
    }
    v
}

// ---------------------------------------------------------------------------------------------

fn range_of<R: RangeBounds<usize>>(len: usize, r: &R) -> core::ops::Range<usize> {
    use core::ops::Bound::*;
    let start = match r.start_bound() {
        Included(i) => *i,
        Excluded(i) => *i + 1,
        Unbounded => 0,
    };
    let end = match r.end_bound() {
        Included(i) => *i + 1,
        Excluded(i) => *i,
        Unbounded => len,
    };
    start..end
}

impl<T: Clone> Array<AdvKind, T> for AdvArray<T> {
    fn empty() -> Self {
        AdvArray(Vec::new())
    }
    fn len(&self) -> usize {
        self.0.len()
    }
    fn from_slice(slice: &[T]) -> Self {
        AdvArray(slice.to_vec())
    }
    fn concatenate(&self, other: &Self) -> Self {
        let mut v = self.0.clone();
        v.extend(other.0.iter().cloned());
        AdvArray(v)
    }
    fn fill(x: T, n: usize) -> Self {
        AdvArray((0..n).map(|_| x.clone()).collect())
    }
    fn get(&self, i: usize) -> T {
        self.0[i].clone()
    }
    fn get_range<R: RangeBounds<usize>>(&self, rb: R) -> &[T] {
        &self.0[range_of(self.0.len(), &rb)]
    }
    fn set_range<R: RangeBounds<usize>>(&mut self, rb: R, v: &AdvArray<T>) {
        let r = range_of(self.0.len(), &rb);
        assert_eq!(r.end - r.start, v.0.len());
        for (k, i) in r.enumerate() {
            self.0[i] = v.0[k].clone();
        }
    }
    fn gather(&self, idx: &[usize]) -> Self {
        AdvArray(idx.iter().map(|&i| self.0[i].clone()).collect())
    }
    fn scatter(&self, idx: &[usize], n: usize) -> Self {
        assert_eq!(self.0.len(), idx.len());
        if self.0.is_empty() {
            return AdvArray(vec![]);
        }
        let mut written = vec![false; n];
        for &i in idx {
            written[i] = true;
        }
        // open choice: what unwritten cells hold
        let filler_ix = if written.iter().any(|w| !w) {
            let ar = self.0.len().min(3) as u32;
            match choose(CH_FILLER, ar) {
                0 => 0,
                1 => self.0.len() - 1,
                _ => self.0.len() / 2,
            }
        } else {
            0
        };
        let mut y: Vec<T> = (0..n).map(|_| self.0[filler_ix].clone()).collect();
        for (k, &i) in idx.iter().enumerate() {
            y[i] = self.0[k].clone();
        }
        AdvArray(y)
    }
    fn scatter_assign(&mut self, ixs: &AdvArray<usize>, values: Self) {
        for (k, &i) in ixs.0.iter().enumerate() {
            if k < values.0.len() {
                self.0[i] = values.0[k].clone();
            }
        }
    }
    fn scatter_assign_constant(&mut self, ixs: &AdvArray<usize>, arg: T) {
        for &i in ixs.0.iter() {
            self.0[i] = arg.clone();
        }
    }
}

impl Add<&AdvArray<usize>> for usize {
    type Output = AdvArray<usize>;
    fn add(self, rhs: &AdvArray<usize>) -> AdvArray<usize> {
        AdvArray(rhs.0.iter().map(|x| x + self).collect())
    }
}

impl<T: Clone + Add<Output = T>> Add<AdvArray<T>> for AdvArray<T> {
    type Output = AdvArray<T>;
    fn add(self, rhs: AdvArray<T>) -> AdvArray<T> {
        assert_eq!(self.0.len(), rhs.0.len());
        AdvArray(self.0.iter().zip(rhs.0.iter()).map(|(x, y)| x.clone() + y.clone()).collect())
    }
}

impl<T: Clone + Sub<Output = T>> Sub<AdvArray<T>> for AdvArray<T> {
    type Output = AdvArray<T>;
    fn sub(self, rhs: AdvArray<T>) -> AdvArray<T> {
        assert_eq!(self.0.len(), rhs.0.len());
        AdvArray(self.0.iter().zip(rhs.0.iter()).map(|(x, y)| x.clone() - y.clone()).collect())
    }
}

impl<T: Ord + Clone> OrdArray<AdvKind, T> for AdvArray<T> {
    fn argsort(&self) -> AdvArray<usize> {
        let mut ix: Vec<usize> = (0..self.0.len()).collect();
        ix.sort_by(|&a, &b| self.0[a].cmp(&self.0[b])); // stable: ties ascending = alternative 0
        // open choice: order inside every group of equal keys
        let mut i = 0;
        while i < ix.len() {
            let mut j = i + 1;
            while j < ix.len() && self.0[ix[j]] == self.0[ix[i]] {
                j += 1;
            }
            let g = j - i;
            if g >= 2 {
                let p = choose(CH_ARGSORT, perm_arity(g));
                let pv = perm_variant(g, p);
                let old: Vec<usize> = ix[i..j].to_vec();
                for k in 0..g {
                    ix[i + k] = old[pv[k]];
                }
            }
            i = j;
        }
        AdvArray(ix)
    }
}

impl NaturalArray<AdvKind> for AdvArray<usize> {
    fn max(&self) -> Option<usize> {
        let mut m: Option<usize> = None;
        for &x in self.0.iter() {
            m = Some(match m {
                None => x,
                Some(y) => y.max(x),
            });
        }
        m
    }
    fn cumulative_sum(&self) -> Self {
        let mut v = vec![0usize];
        for &x in self.0.iter() {
            let last = *v.last().unwrap();
            v.push(last + x);
        }
        AdvArray(v)
    }
    fn arange(start: &usize, stop: &usize) -> Self {
        assert!(stop >= start);
        AdvArray((*start..*stop).collect())
    }
    fn repeat(&self, x: &[usize]) -> Self {
        assert_eq!(self.0.len(), x.len());
        let mut v = vec![];
        for (k, xi) in self.0.iter().zip(x.iter()) {
            for _ in 0..*k {
                v.push(*xi);
            }
        }
        AdvArray(v)
    }
    fn quot_rem(&self, d: usize) -> (Self, Self) {
        assert!(d != 0);
        (AdvArray(self.0.iter().map(|x| x / d).collect()), AdvArray(self.0.iter().map(|x| x % d).collect()))
    }
    fn mul_constant_add(&self, c: usize, x: &Self) -> Self {
        assert_eq!(self.0.len(), x.0.len());
        AdvArray(self.0.iter().zip(x.0.iter()).map(|(s, x)| s * c + x).collect())
    }
    fn connected_components(sources: &Self, targets: &Self, n: usize) -> (Self, usize) {
        assert_eq!(sources.0.len(), targets.0.len());
        let pairs: Vec<(usize, usize)> = sources.0.iter().cloned().zip(targets.0.iter().cloned()).collect();
        for &(a, b) in &pairs {
            assert!(a < n && b < n);
        }
        let (dense, k) = ohmc_core::plain::classes(n, &pairs);
        // open choice: which component gets which number
        let p = choose(CH_COMPONENTS, perm_arity(k));
        let pv = perm_variant(k, p);
        (AdvArray(dense.into_iter().map(|c| pv[c]).collect()), k)
    }
    fn bincount(&self, size: usize) -> AdvArray<usize> {
        let mut c = vec![0usize; size];
        for &i in self.0.iter() {
            c[i] += 1;
        }
        AdvArray(c)
    }
    fn sparse_bincount(&self) -> (AdvArray<usize>, AdvArray<usize>) {
        let mut keys: Vec<usize> = self.0.clone();
        keys.sort();
        keys.dedup();
        let counts: Vec<usize> = keys.iter().map(|k| self.0.iter().filter(|x| *x == k).count()).collect();
        // open choice: order of the rows
        let p = choose(CH_SPARSE, perm_arity(keys.len()));
        let pv = perm_variant(keys.len(), p);
        (AdvArray(pv.iter().map(|&i| keys[i]).collect()), AdvArray(pv.iter().map(|&i| counts[i]).collect()))
    }
    fn zero(&self) -> AdvArray<usize> {
        AdvArray((0..self.0.len()).filter(|&i| self.0[i] == 0).collect())
    }
    fn scatter_sub_assign(&mut self, ixs: &AdvArray<usize>, rhs: &AdvArray<usize>) {
        for k in 0..ixs.0.len() {
            self.0[ixs.0[k]] -= rhs.0[k];
        }
    }
}

// ---------------------------------------------------------------------------------------------
// deviation-bounded exploration of choice tapes (CHESS-style iterative bounding applied to the
// backend's open answers instead of preemptions)

#[derive(Default, Clone, Debug)]
pub struct TapeStats {
    pub runs: u64,
    pub diverged: u64,
    pub capped: bool,
    pub max_points: usize,
}

/// Run `f` under every choice tape with at most `bound` non-default answers (all tapes when
/// `bound == usize::MAX`), depth-first; `visit` sees each execution's tape, result and log.
pub fn explore_tapes<R>(bound: usize, max_runs: u64, mut f: impl FnMut() -> R, mut visit: impl FnMut(&[u32], R, &[Choice])) -> TapeStats {
    let mut st = TapeStats::default();
    let mut stack: Vec<Vec<u32>> = vec![vec![]];
    while let Some(prefix) = stack.pop() {
        if st.runs >= max_runs {
            st.capped = true;
            break;
        }
        let (r, log, bad) = with_tape(&prefix, &mut f);
        st.runs += 1;
        st.max_points = st.max_points.max(log.len());
        let taken: Vec<u32> = log.iter().map(|c| c.taken).collect();
        if bad || taken.len() < prefix.len() || taken[..prefix.len()] != prefix[..] {
            // replaying a prefix met a different sequence of choice points: nondeterminism not owned
            st.diverged += 1;
        }
        visit(&taken, r, &log);
        for i in prefix.len()..log.len() {
            let devs = taken[..i].iter().filter(|&&t| t != 0).count();
            if bound != usize::MAX && devs + 1 > bound {
                continue;
            }
            for alt in 1..log[i].arity {
                let mut p = taken[..i].to_vec();
                p.push(alt);
                stack.push(p);
            }
        }
    }
    st
}
