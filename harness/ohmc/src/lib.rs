pub mod adv;
pub mod laxconv;
pub mod ops;
pub mod tf;

pub mod onvec {
    pub use open_hypergraphs::array::vec::{VecArray as Arr, VecKind as K};
    pub const BACKEND_NAME: &str = "vec";
    include!("be_body.rs");
}

pub mod onadv {
    pub use crate::adv::{AdvArray as Arr, AdvKind as K};
    pub const BACKEND_NAME: &str = "adv";
    include!("be_body.rs");
}
pub mod props;

/// Oracle self-tests that need the library: AdvKind must itself satisfy the array contract under
/// every alternative of every choice point (otherwise C20 would raise alarms on correct code).
/// Returns (ok, executions, cases).
pub fn adv_conformance(quick: bool) -> (bool, u64, u64, Vec<String>) {
    use rayon::prelude::*;
    let c = onadv::C07::new(quick);
    let mut ok = true;
    let mut execs = 0u64;
    let mut cases = 0u64;
    let mut msgs = vec![];
    for (fam, count) in c.families.clone() {
        let r: Vec<(u64, u64, Option<String>)> = (0..count)
            .into_par_iter()
            .map(|i| {
                let mut loc = ohmc_core::explore::Local::scratch();
                c.run(fam, i, &mut loc);
                (loc.transitions, 1, loc.violations.first().map(|v| format!("{} {}", v.kind, v.detail)))
            })
            .collect();
        for (t, n, v) in r {
            execs += t;
            cases += n;
            if let Some(m) = v {
                ok = false;
                if msgs.len() < 5 {
                    msgs.push(m);
                }
            }
        }
    }
    (ok, execs, cases, msgs)
}

pub fn selftest_extra() -> bool {
    ohmc_core::explore::install_panic_hook();
    let (ok, execs, cases, msgs) = adv_conformance(true);
    println!("selftest adv-conformance: cases={} executions(all tapes)={} ok={}", cases, execs, ok);
    for m in msgs {
        println!("  {}", m);
    }
    ok
}
