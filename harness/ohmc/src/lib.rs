pub mod adv;
pub mod ops;

pub mod onvec {
    pub use open_hypergraphs::array::vec::{VecArray as Arr, VecKind as K};
    pub const BACKEND_NAME: &str = "vec";
    include!("be_body.rs");
}

pub mod onadv {
    pub use crate::adv::{AdvArray as Arr, AdvKind as K};
    pub const BACKEND_NAME: &str = "adv";
    include!("be_body.rs");
}
pub mod props;

/// further oracle self-tests that need the library (AdvKind conformance etc.); extended over time
pub fn selftest_extra() -> bool {
    true
}
