// C06 — finite functions as functions between finite sets (included once per backend).

pub struct C06 {
    /// all tables a -> b with a <= 4, b <= 4 (b = 5 in the thorough tier for the small a)
    pub funs: Vec<(Vec<usize>, usize)>,
    /// raw tables for `new`
    pub raw: Vec<Vec<usize>>,
    /// (sizes table, index map table, index map declared codomain)
    pub inj: Vec<(Vec<usize>, Vec<usize>, usize)>,
    /// (q table, q codomain) surjective, with every f: B -> 3
    pub surj: Vec<(Vec<usize>, usize)>,
    /// universal family: longest f table, and 3^that
    pub fmax: usize,
    pub nfu: u64,
    pub families: Vec<(&'static str, u64)>,
}

/// (number of runs, run length, first value, one trailing value continuing the last run)
const RUNS6: [(usize, usize, usize, bool); 8] = [(8, 2, 0, false), (8, 2, 1, true), (6, 3, 0, false), (6, 3, 1, true), (5, 4, 0, false), (4, 5, 0, true), (3, 6, 1, false), (2, 8, 0, true)];
fn fact6(n: usize) -> u64 {
    (1..=n as u64).product()
}
fn ffv(f: &(Vec<usize>, usize)) -> FF {
    ff(&f.0, f.1)
}

fn same_ff(got: &FF, table: &[usize], target: usize) -> bool {
    got.table.0 == table && got.target == target
}

fn show(f: &FF) -> String {
    format!("{:?}->{}", f.table.0, f.target)
}

impl C06 {
    pub fn new(quick: bool) -> C06 {
        let mut funs = vec![];
        let bmax = if quick { 4 } else { 5 };
        let amax = if quick { 4usize } else { 6 };
        for b in 0..=bmax {
            for a in 0..=amax {
                for t in ohmc_core::uni::tables(a, b) {
                    funs.push((t, b));
                }
            }
        }
        let mut raw = ohmc_core::uni::lists(5, 3);
        // longer tables: every table of length 4..6 over {0,1,2}, and all-zero tables of length 5..33 with one
        // entry raised to 1, 2 or 3 at every position (an out-of-range entry anywhere must be seen)
        raw.extend(ohmc_core::uni::lists(3, 6).into_iter().filter(|l| l.len() >= 4));
        for len in [5usize, 6, 7, 8, 9, 15, 16, 17, 31, 32, 33] {
            for pos in 0..len {
                for v in 1..=3usize {
                    let mut t = vec![0; len];
                    t[pos] = v;
                    raw.push(t);
                }
            }
        }
        let mut inj = vec![];
        for n in 0..=(if quick { 3usize } else { 4 }) {
            for sizes in ohmc_core::uni::tables(n, 4) {
                for dn in 0..=5usize {
                    // declared codomain of the index map: n (well typed) and the neighbours (ill typed)
                    if dn + 1 < n || dn > n + 1 {
                        continue;
                    }
                    for alen in 0..=(if quick { 3usize } else { 4 }) {
                        for am in ohmc_core::uni::tables(alen, dn) {
                            inj.push((sizes.clone(), am, dn));
                        }
                    }
                }
            }
        }
        let mut surj = vec![];
        let smax = if quick { 4usize } else { 5 };
        for qn in 0..=smax {
            for bn in 0..=smax {
                for t in ohmc_core::uni::tables(bn, qn) {
                    if (0..qn).all(|c| t.contains(&c)) {
                        surj.push((t, qn));
                    }
                }
            }
        }
        let nf = funs.len() as u64;
        let fmax = if quick { 4usize } else { 6 };
        let nfu = 3u64.pow(fmax as u32);
        // parallel pairs (f, g) of equal length: index by (f, offset within the same-length block)
        let np6: u64 = (1..=6u32).map(|a| 6u64.pow(a) * 6u64.pow(a)).sum::<u64>() * if quick { 0 } else { 1 };
        let families: Vec<(&'static str, u64)> = vec![
            ("new", raw.len() as u64 * 6),
            ("constructors", 5 * 5 * 4),
            ("unary", nf * 4),
            ("pairs", nf * nf),
            ("injections", inj.len() as u64),
            ("injections_huge_block", 3 * 27 * 2 * 40),
            ("universal", surj.len() as u64 * nfu * 3),
            ("semifinite", nf * 6),
            ("coequalizer_structured", 0), // filled in below
            ("wide_codomains", 3 * LARGE.len() as u64 * 40),
            ("compose_permuted_runs", RUNS6.iter().map(|c| fact6(c.0)).sum::<u64>()),
        ];
        let mut families = families;
        let ng = structured_graphs().len() as u64 + (LARGE.len() * 6) as u64;
        families.iter_mut().find(|f| f.0 == "coequalizer_structured").unwrap().1 = ng;
        if !quick {
            families.push(("coequalizer_into_six", np6));
        }
        C06 { funs, raw, inj, surj, fmax, nfu, families }
    }

    pub fn run(&self, fam: &str, i: u64, loc: &mut ohmc_core::explore::Local) {
        let mut runs = 0u64;
        let mut nontrivial = false;
        let st = crate::adv::explore_tapes(usize::MAX, 4096, || catch(|| self.case(fam, i)), |tape, r, _| {
            runs += 1;
            match r {
                Ok(Ok(nt)) => nontrivial |= nt,
                Ok(Err(msg)) => loc.violation(&format!("wrong:{}", fam), serde_json::json!({"family": fam, "index": i, "tape": tape, "why": msg, "backend": BACKEND_NAME})),
                Err(p) => loc.violation(&format!("panic:{}", fam), serde_json::json!({"family": fam, "index": i, "tape": tape, "panic": p, "backend": BACKEND_NAME})),
            }
        });
        if st.diverged > 0 {
            loc.violation("choice-tape-diverged", serde_json::json!({"family": fam, "index": i}));
        }
        loc.trans(runs);
        if nontrivial {
            loc.nontrivial();
        }
        loc.outcome(&(fam, nontrivial, runs));
        loc.sample(|| serde_json::json!({"family": fam, "index": i}));
    }

    /// Ok(nontrivial) or Err(why wrong)
    fn case(&self, fam: &str, i: u64) -> Result<bool, String> {
        let nf = self.funs.len() as u64;
        match fam {
            "new" => {
                let (t, target) = (&self.raw[(i / 6) as usize], (i % 6) as usize);
                let expect = t.iter().all(|&x| x < target);
                let got = FF::new(Arr(t.clone()), target);
                ensure(got.is_some() == expect, || format!("FiniteFunction::new({:?},{}) accepted = {}", t, target, got.is_some()))?;
                if let Some(g) = got {
                    ensure(same_ff(&g, t, target), || "new() altered the data".into())?;
                }
                Ok(!expect)
            }
            "constructors" => {
                let (a, b, x) = ((i / 20) as usize, ((i / 4) % 5) as usize, (i % 4) as usize);
                let ar = |n: usize| (0..n).collect::<Vec<_>>();
                let g = FF::terminal(a);
                ensure(same_ff(&g, &vec![0; a], 1), || format!("terminal({}) = {}", a, show(&g)))?;
                let g = FF::constant(a, x, b);
                ensure(same_ff(&g, &vec![x; a], x + b + 1), || format!("constant({},{},{}) = {}", a, x, b, show(&g)))?;
                let g = FF::identity(a);
                ensure(same_ff(&g, &ar(a), a), || format!("identity({}) = {}", a, show(&g)))?;
                let g = FF::initial(a);
                ensure(same_ff(&g, &[], a), || format!("initial({}) = {}", a, show(&g)))?;
                ensure(<FF as Coproduct>::initial_object() == 0 && <FF as Monoidal>::unit() == 0, || "initial object / unit".into())?;
                let g = FF::inj0(a, b);
                ensure(same_ff(&g, &ar(a), a + b), || format!("inj0({},{}) = {}", a, b, show(&g)))?;
                let g = FF::inj1(a, b);
                ensure(same_ff(&g, &(a..a + b).collect::<Vec<_>>(), a + b), || format!("inj1({},{}) = {}", a, b, show(&g)))?;
                // symmetry a + b -> b + a : the a-block lands after the b-block
                let g = FF::twist(a, b);
                let e: Vec<usize> = (0..a).map(|k| b + k).chain(0..b).collect();
                ensure(same_ff(&g, &e, a + b), || format!("twist({},{}) = {}", a, b, show(&g)))?;
                // transposition: position (row q, column r) of a b-by-a matrix goes to (row r, column q)
                let g = FF::transpose(a, b);
                let mut e = vec![0; a * b];
                for q in 0..b {
                    for r in 0..a {
                        e[q * a + r] = r * b + q;
                    }
                }
                ensure(g.table.0 == e, || format!("transpose({},{}) = {}", a, b, show(&g)))?;
                ensure(g.target == a * b || (a * b == 0 && g.table.0.is_empty()), || format!("transpose({},{}) target {}", a, b, g.target))?;
                Ok(a > 1 && b > 1)
            }
            "unary" => {
                let f = &self.funs[(i / 4) as usize];
                let c = (i % 4) as usize;
                let g = ffv(f);
                ensure(Arrow::source(&g) == f.0.len() && Arrow::target(&g) == f.1, || "source/target".into())?;
                let r = g.inject0(c);
                ensure(same_ff(&r, &f.0, f.1 + c), || format!("({}).inject0({}) = {}", show(&g), c, show(&r)))?;
                let r = g.inject1(c);
                ensure(same_ff(&r, &f.0.iter().map(|x| x + c).collect::<Vec<_>>(), f.1 + c), || format!("({}).inject1({}) = {}", show(&g), c, show(&r)))?;
                let r = g.to_initial();
                ensure(same_ff(&r, &[], f.1), || format!("to_initial = {}", show(&r)))?;
                let inj = (0..f.0.len()).all(|p| (0..p).all(|q| f.0[p] != f.0[q]));
                ensure(g.is_injective() == inj, || format!("({}).is_injective() = {}", show(&g), !inj))?;
                let r = g.cumulative_sum();
                let mut e = vec![];
                let mut acc = 0;
                for x in f.0.iter() {
                    e.push(acc);
                    acc += x;
                }
                ensure(same_ff(&r, &e, acc), || format!("({}).cumulative_sum() = {}", show(&g), show(&r)))?;
                Ok(!inj)
            }
            "pairs" => {
                let (f, g) = (&self.funs[(i / nf) as usize], &self.funs[(i % nf) as usize]);
                let (x, y) = (ffv(f), ffv(g));
                let mut nt = false;
                // composition: defined exactly when codomain = domain; pointwise application
                let exp = if f.1 == g.0.len() { Some(f.0.iter().map(|&k| g.0[k]).collect::<Vec<_>>()) } else { None };
                for (nm, r) in [("compose", Arrow::compose(&x, &y)), (">>", &x >> &y)] {
                    match (&r, &exp) {
                        (None, None) => {}
                        (Some(r), Some(e)) => ensure(same_ff(r, e, g.1), || format!("({}) {} ({}) = {}", show(&x), nm, show(&y), show(r)))?,
                        _ => return Err(format!("({}) {} ({}) defined = {}", show(&x), nm, show(&y), r.is_some())),
                    }
                }
                nt |= exp.is_some() && !f.0.is_empty();
                // coproduct: defined exactly when codomains agree; copairing
                let exp = if f.1 == g.1 { Some([f.0.clone(), g.0.clone()].concat()) } else { None };
                for (nm, r) in [("coproduct", Coproduct::coproduct(&x, &y)), ("+", &x + &y)] {
                    match (&r, &exp) {
                        (None, None) => {}
                        (Some(r), Some(e)) => ensure(same_ff(r, e, f.1), || format!("({}) {} ({}) = {}", show(&x), nm, show(&y), show(r)))?,
                        _ => return Err(format!("({}) {} ({}) defined = {}", show(&x), nm, show(&y), r.is_some())),
                    }
                }
                // tensor
                let e: Vec<usize> = f.0.iter().cloned().chain(g.0.iter().map(|k| k + f.1)).collect();
                for (nm, r) in [("tensor", Monoidal::tensor(&x, &y)), ("|", &x | &y)] {
                    ensure(same_ff(&r, &e, f.1 + g.1), || format!("({}) {} ({}) = {}", show(&x), nm, show(&y), show(&r)))?;
                }
                // coequalizer
                let parallel = f.0.len() == g.0.len() && f.1 == g.1;
                match x.coequalizer(&y) {
                    None => ensure(!parallel, || format!("coequalizer of parallel maps ({}),({}) is None", show(&x), show(&y)))?,
                    Some(q) => {
                        ensure(parallel, || format!("coequalizer of non-parallel maps ({}),({}) is Some", show(&x), show(&y)))?;
                        let pairs: Vec<(usize, usize)> = f.0.iter().cloned().zip(g.0.iter().cloned()).collect();
                        let (rq, rk) = classes(f.1, &pairs);
                        ensure(q.table.0.len() == f.1, || format!("coequalizer has source {}, expected {}", q.table.0.len(), f.1))?;
                        ensure(is_dense_surjection(&q.table.0, q.target), || format!("coequalizer {} of ({}),({}) is not a surjection onto a dense range", show(&q), show(&x), show(&y)))?;
                        ensure(q.target == rk && same_partition(&q.table.0, &rq), || {
                            format!("coequalizer {} of ({}),({}) has the wrong kernel (reference classes {:?})", show(&q), show(&x), show(&y), rq)
                        })?;
                        nt |= rk < f.1;
                    }
                }
                Ok(nt)
            }
            "injections_huge_block" => {
                // three blocks, one of them huge and NOT selected (the total is usize::MAX or one less), the other two of
                // size 0..2 selected in every order and multiplicity by index maps of length <= 3: every output entry is
                // representable, so the call must succeed
                let hpos = (i / (27 * 2 * 40)) as usize;
                let small = (i / (2 * 40)) % 27;
                let slack = ((i / 40) % 2) as usize;
                let mi = (i % 40) as usize;
                let sm = [(small % 3) as usize, ((small / 3) % 3) as usize];
                let rest: usize = sm.iter().sum();
                let mut sizes = vec![sm[0], sm[1]];
                sizes.insert(hpos, usize::MAX - rest - slack);
                // index maps over the two small blocks: all lists of length <= 3 over 2 values (15), renamed to skip hpos
                let lists = ohmc_core::uni::lists(2, 3);
                if mi >= lists.len() {
                    return Ok(false);
                }
                let others: Vec<usize> = (0..3).filter(|&b| b != hpos).collect();
                let am: Vec<usize> = lists[mi].iter().map(|&k| others[k]).collect();
                let s = ff(&sizes, usize::MAX);
                let a = ff(&am, 3);
                let r = catch(|| s.injections(&a)).map_err(|p| format!("injections(sizes {:?}, map {:?}) panicked although every entry of the result is representable: {}", sizes, am, p))?;
                let mut p = vec![0u128];
                for k in sizes.iter() {
                    p.push(p.last().unwrap() + *k as u128);
                }
                let mut e: Vec<usize> = vec![];
                for &x in am.iter() {
                    for j in 0..sizes[x] {
                        e.push((p[x] + j as u128) as usize);
                    }
                }
                match r {
                    None => Err(format!("injections(sizes {:?}, map {:?}) is None", sizes, am)),
                    Some(r) => {
                        ensure(r.table.0 == e && r.target as u128 == p[3], || format!("injections(sizes {:?}, map {:?}) = {}, expected {:?} -> {}", sizes, am, show(&r), e, p[3]))?;
                        Ok(!am.is_empty())
                    }
                }
            }
            "injections" => {
                let (sizes, am, dn) = &self.inj[i as usize];
                let n = sizes.len();
                let s = ff(sizes, 4);
                let a = ff(am, *dn);
                let r = s.injections(&a);
                if *dn != n {
                    ensure(r.is_none(), || format!("injections with ill-typed index map ({} vs {}) is Some", dn, n))?;
                    return Ok(true);
                }
                let mut p = vec![0usize];
                for k in sizes.iter() {
                    p.push(p.last().unwrap() + k);
                }
                let mut e = vec![];
                for &x in am.iter() {
                    for j in 0..sizes[x] {
                        e.push(p[x] + j);
                    }
                }
                match r {
                    None => Err(format!("injections(sizes {:?}, map {:?}) is None", sizes, am)),
                    Some(r) => {
                        ensure(same_ff(&r, &e, p[n]), || format!("injections(sizes {:?}, map {:?}) = {}, expected {:?}->{}", sizes, am, show(&r), e, p[n]))?;
                        Ok(am.len() >= 2)
                    }
                }
            }
            "universal" => {
                let (q, qn) = &self.surj[(i / (3 * self.nfu)) as usize];
                let fi = (i / 3) % self.nfu;
                let mode = i % 3; // 0: right length, 1: one shorter, 2: one longer
                let bn = q.len();
                let flen = match mode {
                    0 => bn,
                    1 => {
                        if bn == 0 {
                            return Ok(false);
                        }
                        bn - 1
                    }
                    _ => bn + 1,
                };
                if flen > self.fmax {
                    return Ok(false);
                }
                // f = the fi-th table of length flen over 3 values (only the first 3^flen are distinct)
                if fi >= 3u64.pow(flen as u32) {
                    return Ok(false);
                }
                let mut f = vec![];
                let mut r = fi;
                for _ in 0..flen {
                    f.push((r % 3) as usize);
                    r /= 3;
                }
                let constant_on_fibres = mode == 0 && (0..bn).all(|x| (0..x).all(|y| q[x] != q[y] || f[x] == f[y]));
                let qf = ff(q, *qn);
                // finite-function version
                let got = qf.coequalizer_universal(&ff(&f, 3));
                match &got {
                    None => ensure(!constant_on_fibres, || format!("universal map of q={:?}->{} for f={:?} is None though f is constant on the fibres", q, qn, f))?,
                    Some(u) => {
                        ensure(constant_on_fibres, || format!("universal map of q={:?}->{} for f={:?} is Some({}) though none exists", q, qn, f, show(u)))?;
                        ensure(u.table.0.len() == *qn && u.target == 3 && u.table.0.iter().all(|&v| v < 3), || format!("universal map {} has the wrong type", show(u)))?;
                        ensure((0..bn).all(|x| u.table.0[q[x]] == f[x]), || format!("q ; u != f for q={:?}, f={:?}, u={}", q, f, show(u)))?;
                    }
                }
                // label-array version
                let labels: Vec<String> = f.iter().map(|v| format!("l{}", v)).collect();
                let got = open_hypergraphs::finite_function::coequalizer_universal::<K, String>(&qf, &Arr(labels.clone()));
                match &got {
                    None => ensure(!constant_on_fibres, || format!("universal label map of q={:?} for {:?} is None", q, labels))?,
                    Some(u) => {
                        ensure(constant_on_fibres, || format!("universal label map of q={:?} for {:?} is Some though none exists", q, labels))?;
                        ensure(u.0.len() == *qn && (0..bn).all(|x| u.0[q[x]] == labels[x]), || format!("q ; u != labels for q={:?}, labels={:?}, u={:?}", q, labels, u.0))?;
                    }
                }
                Ok(!constant_on_fibres)
            }
            "semifinite" => {
                let f = &self.funs[(i / 6) as usize];
                let ln = (i % 6) as usize;
                let labels: Vec<String> = (0..ln).map(|k| format!("w{}", k % 2)).collect();
                let x = ffv(f);
                let sfn: SF<String> = SemifiniteFunction::new(Arr(labels.clone()));
                ensure(sfn.len() == ln, || "SemifiniteFunction::len".into())?;
                let exp = if f.1 == ln { Some(f.0.iter().map(|&k| labels[k].clone()).collect::<Vec<_>>()) } else { None };
                for (nm, r) in [("compose_semifinite", open_hypergraphs::semifinite::compose_semifinite(&x, &sfn)), (">>", &x >> &sfn)] {
                    match (&r, &exp) {
                        (None, None) => {}
                        (Some(r), Some(e)) => ensure(r.0 .0 == *e, || format!("({}) {} {:?} = {:?}", show(&x), nm, labels, r.0 .0))?,
                        _ => return Err(format!("({}) {} labels of length {} defined = {}", show(&x), nm, ln, r.is_some())),
                    }
                }
                let one = SF::<String>::singleton("x".to_string());
                ensure(one.0 .0 == vec!["x".to_string()], || "singleton".into())?;
                let c = sfn.coproduct(&one);
                let mut e = labels.clone();
                e.push("x".into());
                ensure(c.0 .0 == e, || "SemifiniteFunction::coproduct".into())?;
                let c2 = (&sfn + &one).map(|s| s.0 .0);
                ensure(c2 == Some(e.clone()), || "&a + &b".into())?;
                let c3 = sfn.clone() + one.clone();
                ensure(c3.0 .0 == e, || "a + b".into())?;
                use num_traits::Zero;
                let z = SF::<String>::zero();
                ensure(z.0 .0.is_empty() && z.is_zero() && (sfn.is_zero() == labels.is_empty()), || "zero".into())?;
                // SemifiniteArrow
                use open_hypergraphs::semifinite::{SemifiniteArrow, SemifiniteObject};
                let af: SemifiniteArrow<K, String> = x.clone().into();
                let al: SemifiniteArrow<K, String> = sfn.clone().into();
                ensure(af.source() == SemifiniteObject::Finite(f.0.len()) && af.target() == SemifiniteObject::Finite(f.1), || "SemifiniteArrow finite source/target".into())?;
                ensure(al.source() == SemifiniteObject::Finite(ln) && al.target() == SemifiniteObject::Set(core::marker::PhantomData), || "SemifiniteArrow semifinite source/target".into())?;
                match (af.compose(&al), &exp) {
                    (None, None) => {}
                    (Some(SemifiniteArrow::Semifinite(r)), Some(e)) => ensure(r.0 .0 == *e, || "SemifiniteArrow compose".into())?,
                    (r, _) => return Err(format!("SemifiniteArrow::compose defined = {}", r.is_some())),
                }
                match SemifiniteArrow::<K, String>::identity(SemifiniteObject::Finite(ln)) {
                    SemifiniteArrow::Finite(idf) => ensure(same_ff(&idf, &(0..ln).collect::<Vec<_>>(), ln), || "SemifiniteArrow::identity".into())?,
                    _ => return Err("SemifiniteArrow::identity(Finite) is not finite".into()),
                }
                ensure(al.compose(&af).is_none(), || "semifinite ; finite should be undefined".into())?;
                // finite ; finite through the same enum, the Identity variant, and the conversions
                let idf: SemifiniteArrow<K, String> = FF::identity(f.1).into();
                match af.compose(&idf) {
                    Some(SemifiniteArrow::Finite(r)) => ensure(same_ff(&r, &f.0, f.1), || "SemifiniteArrow: f ; id".into())?,
                    _ => return Err("SemifiniteArrow: finite ; finite is not finite".into()),
                }
                let wrong: SemifiniteArrow<K, String> = FF::identity(f.1 + 1).into();
                ensure(af.compose(&wrong).is_none(), || "SemifiniteArrow: finite ; finite with a type mismatch is defined".into())?;
                let ident = SemifiniteArrow::<K, String>::identity(SemifiniteObject::Set(core::marker::PhantomData));
                ensure(matches!(ident, SemifiniteArrow::Identity), || "identity on the set object is not the Identity arrow".into())?;
                ensure(ident.source() == SemifiniteObject::Set(core::marker::PhantomData) && ident.target() == SemifiniteObject::Set(core::marker::PhantomData), || "source/target of the Identity arrow".into())?;
                ensure(af.compose(&ident).is_none() && ident.compose(&af).is_none(), || "composition with the Identity arrow on types must be undefined".into())?;
                let back: Result<SF<String>, ()> = SF::<String>::try_from(al);
                ensure(back.map(|b| b.0 .0) == Ok(labels.clone()), || "TryFrom<SemifiniteArrow> for SemifiniteFunction".into())?;
                let back2: Result<SF<String>, ()> = SF::<String>::try_from(af);
                ensure(back2.is_err(), || "TryFrom of a finite arrow must fail".into())?;
                Ok(exp.is_some())
            }
            "coequalizer_into_six" => {
                // every pair of parallel maps a -> 6, a = 1..6 (thorough tier)
                let mut r = i;
                let mut a = 1u32;
                loop {
                    let blk = 6u64.pow(a) * 6u64.pow(a);
                    if r < blk {
                        break;
                    }
                    r -= blk;
                    a += 1;
                }
                let m = 6u64.pow(a);
                let unrank = |mut x: u64| -> Vec<usize> {
                    let mut t = vec![];
                    for _ in 0..a {
                        t.push((x % 6) as usize);
                        x /= 6;
                    }
                    t
                };
                let (f, g) = (unrank(r / m), unrank(r % m));
                let q = ff(&f, 6).coequalizer(&ff(&g, 6)).ok_or("coequalizer of parallel maps is None")?;
                let pairs: Vec<(usize, usize)> = f.iter().cloned().zip(g.iter().cloned()).collect();
                let (rq, rk) = classes(6, &pairs);
                ensure(q.table.0.len() == 6 && is_dense_surjection(&q.table.0, q.target), || format!("coequalizer {} of {:?},{:?} -> 6 is not a dense surjection", show(&q), f, g))?;
                ensure(q.target == rk && same_partition(&q.table.0, &rq), || format!("coequalizer {} of {:?},{:?} -> 6 has the wrong kernel (reference classes {:?})", show(&q), f, g, rq))?;
                Ok(rk < 6)
            }
            "coequalizer_structured" => {
                // parallel maps f, g : E -> n read off structured / large sparse edge lists (deep union-find trees,
                // sizes around powers of two)
                let sg = structured_graphs();
                let (f, g, n): (Vec<usize>, Vec<usize>, usize) = if (i as usize) < sg.len() {
                    sg[i as usize].clone()
                } else {
                    let j = i as usize - sg.len();
                    let n = LARGE[j / 6];
                    if n < 2 {
                        return Ok(false);
                    }
                    let pairs: Vec<(usize, usize)> = match j % 6 {
                        0 => vec![],
                        1 => vec![(0, 1), (n - 2, n - 1)],
                        2 => vec![(0, n - 1)],
                        3 => vec![(n - 1, 0), (n / 2, 0)],
                        4 => (1..n.min(70)).map(|k| (k - 1, k)).collect(),
                        _ => (0..(n / 2).min(70)).map(|k| (k, n - 1 - k)).collect(),
                    };
                    let (a_, b_): (Vec<usize>, Vec<usize>) = pairs.into_iter().unzip();
                    (a_, b_, n)
                };
                let q = ff(&f, n).coequalizer(&ff(&g, n)).ok_or("coequalizer of parallel maps is None")?;
                ensure(q.table.0.len() == n && is_dense_surjection(&q.table.0, q.target), || format!("coequalizer on {} elements is not a dense surjection", n))?;
                // q coequalizes, and identifies nothing that is not linked: check against reference classes
                let pairs: Vec<(usize, usize)> = f.iter().cloned().zip(g.iter().cloned()).collect();
                let (rq, rk) = classes(n, &pairs);
                ensure(q.target == rk, || format!("coequalizer on {} elements with {} pairs has {} classes, expected {}", n, pairs.len(), q.target, rk))?;
                let mut m1: std::collections::HashMap<usize, usize> = Default::default();
                let mut m2: std::collections::HashMap<usize, usize> = Default::default();
                for j in 0..n {
                    let x = *m1.entry(rq[j]).or_insert(q.table.0[j]);
                    let y = *m2.entry(q.table.0[j]).or_insert(rq[j]);
                    ensure(x == q.table.0[j] && y == rq[j], || format!("coequalizer on {} elements with {} pairs puts element {} in the wrong class", n, pairs.len(), j))?;
                }
                Ok(true)
            }
            "compose_permuted_runs" => {
                // left tables of length 16 .. 25 that are piecewise consecutive - k runs of b consecutive values in EVERY
                // order of the runs (injections in a permuted order, block permutations) - composed with a function, with
                // labels and with their own inverse: pointwise application
                let mut r = i;
                let mut cfg = RUNS6[0];
                for c in RUNS6.iter() {
                    if r < fact6(c.0) {
                        cfg = *c;
                        break;
                    }
                    r -= fact6(c.0);
                }
                let (k, b, off, tail) = cfg;
                let mut pool: Vec<usize> = (0..k).collect();
                let mut order = vec![];
                let mut rr = r;
                for m in (1..=k).rev() {
                    let f = fact6(m - 1);
                    order.push(pool.remove((rr / f) as usize));
                    rr %= f;
                }
                let mut t: Vec<usize> = order.iter().flat_map(|&blk| (0..b).map(move |j| off + blk * b + j)).collect();
                if tail {
                    t.push(off + k * b);
                }
                let cod = off + k * b + 2;
                let x = ffv(&(t.clone(), cod));
                let gt: Vec<usize> = (0..cod).map(|j| (5 * j + 1) % 7).collect();
                let y = ffv(&(gt.clone(), 7));
                let e: Vec<usize> = t.iter().map(|&j| gt[j]).collect();
                for (nm, r) in [("compose", Arrow::compose(&x, &y)), (">>", &x >> &y)] {
                    match r {
                        Some(r) => ensure(same_ff(&r, &e, 7), || format!("({}) {} (5j+1 mod 7) = {}", show(&x), nm, show(&r)))?,
                        None => return Err(format!("({}) {} (.. -> 7) refused", show(&x), nm)),
                    }
                }
                let labels: Vec<String> = (0..cod).map(|j| format!("w{}", j)).collect();
                let sfn: SF<String> = SemifiniteFunction::new(Arr(labels.clone()));
                for (nm, r) in [("compose_semifinite", open_hypergraphs::semifinite::compose_semifinite(&x, &sfn)), (">>", &x >> &sfn)] {
                    match r {
                        Some(r) => ensure(r.0 .0 == t.iter().map(|&j| labels[j].clone()).collect::<Vec<_>>(), || format!("({}) {} distinct labels = {:?}", show(&x), nm, r.0 .0))?,
                        None => return Err(format!("({}) {} labels refused", show(&x), nm)),
                    }
                }
                ensure(x.is_injective(), || format!("({}).is_injective() = false", show(&x)))?;
                Ok(true)
            }
            "wide_codomains" => {
                // short tables into codomains around powers of two
                let len = (i / (LARGE.len() as u64 * 40)) as usize + 1; // 1..=3
                let b = LARGE[((i / 40) % LARGE.len() as u64) as usize];
                let code = i % 40;
                if b == 0 {
                    return Ok(false);
                }
                // entries chosen from {0, 1, b/2, b-2, b-1} (clamped), by the code
                let cands = [0usize, 1.min(b - 1), b / 2, b.saturating_sub(2), b - 1];
                let mut t = vec![];
                let mut c = code;
                for _ in 0..len {
                    t.push(cands[(c % 5) as usize]);
                    c /= 5;
                }
                if c != 0 {
                    return Ok(false);
                }
                let fnew = FF::new(Arr(t.clone()), b).ok_or_else(|| format!("FiniteFunction::new({:?},{}) rejected in-range data", t, b))?;
                ensure(FF::new(Arr(vec![b]), b).is_none() && FF::new(Arr(vec![0, b]), b).is_none(), || format!("FiniteFunction::new accepts the entry {} for codomain {}", b, b))?;
                let inj = (0..t.len()).all(|p| (0..p).all(|q| t[p] != t[q]));
                ensure(fnew.is_injective() == inj, || format!("({:?} -> {}).is_injective() = {}", t, b, !inj))?;
                let idb = FF::identity(b);
                ensure(Arrow::compose(&fnew, &idb).map(|r| r.table.0) == Some(t.clone()), || format!("({:?} -> {}) ; id", t, b))?;
                ensure(idb.is_injective() && FF::twist(b, 1).is_injective() && (b < 2 || !FF::terminal(b).is_injective()), || format!("is_injective on identity / twist / terminal of size {}", b))?;
                let tw = FF::twist(b, 2);
                ensure(tw.table.0.len() == b + 2 && tw.table.0[0] == 2 && tw.table.0[b] == 0 && tw.table.0[b + 1] == 1, || format!("twist({},2)", b))?;
                let tr = FF::transpose(b, 2);
                ensure(tr.table.0.len() == 2 * b && (0..2).all(|q| (0..b).all(|r| tr.table.0[q * b + r] == r * 2 + q)), || format!("transpose({},2)", b))?;
                let inj = fnew.inject1(3);
                ensure(inj.target == b + 3 && inj.table.0 == t.iter().map(|x| x + 3).collect::<Vec<_>>(), || "inject1 at a wide codomain".into())?;
                Ok(true)
            }
            other => Err(format!("unknown family {}", other)),
        }
    }
}
