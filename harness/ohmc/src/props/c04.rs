//! C04 — dagger and spiders (hypergraph-category structure), strict and lax.
use crate::laxconv::*;
use crate::ops::*;
use ohmc_core::explore::*;
use ohmc_core::iso::iso;
use ohmc_core::plain::*;
use open_hypergraphs::category::*;
use open_hypergraphs::strict::vec::FiniteFunction as VFF;
use open_hypergraphs::array::vec::VecArray;
use serde_json::json;

type P = POpen<u8, u8>;
type L = PLax<u8, u8>;

fn fail(loc: &mut Local, what: &str, e: &Fail, case: serde_json::Value) {
    loc.violation(&format!("{}:{}", what, e.kind()), json!({"what": what, "failure": e.msg(), "case": case}));
}

pub fn check_dagger<B: StrictOps>(f: &P, loc: &mut Local) {
    loc.trans(2);
    match B::dagger(f) {
        Err(e) => fail(loc, "dagger", &e, json!({"f": f})),
        Ok(d) => {
            if d != f.dagger() {
                loc.violation("dagger-is-not-the-swap", json!({"f": f, "got": d}));
            }
            match B::dagger(&d) {
                Ok(dd) if dd == *f => {}
                other => loc.violation("dagger-not-involutive", json!({"f": f, "got": format!("{:?}", other)})),
            }
        }
    }
    if f.s != f.t {
        loc.nontrivial();
    }
    loc.outcome(&(f.s.len(), f.t.len(), f.edges.len()));
    loc.sample(|| json!({"f": f}));
}

pub fn check_dagger_pair<B: StrictOps>(f: &P, g: &P, loc: &mut Local) {
    // (f ⊗ g)† = f† ⊗ g†  exactly
    let l = B::tensor(f, g).and_then(|x| B::dagger(&x));
    let r = B::dagger(f).and_then(|a| B::dagger(g).and_then(|b| B::tensor(&a, &b)));
    loc.trans(5);
    match (l, r) {
        (Ok(l), Ok(r)) => {
            if l != r {
                loc.violation("dagger-does-not-distribute-over-tensor", json!({"f": f, "g": g, "left": l, "right": r}));
            }
        }
        (Err(e), _) | (_, Err(e)) => fail(loc, "dagger-tensor", &e, json!({"f": f, "g": g})),
    }
    // (f ; g)† ≅ g† ; f†
    if f.target_type() == g.source_type() {
        let l = B::compose(f, g).and_then(|x| match x {
            Some(x) => B::dagger(&x).map(Some),
            None => Ok(None),
        });
        let r = B::dagger(g).and_then(|a| B::dagger(f).and_then(|b| B::compose(&a, &b)));
        loc.trans(5);
        match (l, r) {
            (Ok(Some(l)), Ok(Some(r))) => {
                if !iso(&l, &r) {
                    loc.violation("dagger-not-contravariant", json!({"f": f, "g": g, "left": l, "right": r}));
                }
                loc.outcome(&(l.nodes.len(), l.edges.len(), l.s.len(), l.t.len()));
            }
            (Err(e), _) | (_, Err(e)) => fail(loc, "dagger-compose", &e, json!({"f": f, "g": g})),
            (l, r) => loc.violation("dagger-compose-undefined", json!({"f": f, "g": g, "left": format!("{:?}", l), "right": format!("{:?}", r)})),
        }
        if !f.t.is_empty() {
            loc.nontrivial();
        }
    }
}

/// acceptance condition of spider construction: legs (table, declared codomain) and node list
pub fn check_spider_acceptance<B: StrictOps>(s: &[usize], sm: usize, t: &[usize], tm: usize, w: &[u8], loc: &mut Local) {
    let expect = sm == w.len() && tm == w.len();
    for via_trait in [false, true] {
        loc.trans(1);
        match B::spider::<u8, u8>((s, sm), (t, tm), w, via_trait) {
            Err(e) => fail(loc, "spider", &e, json!({"s": s, "sm": sm, "t": t, "tm": tm, "w": w})),
            Ok(None) => {
                if expect {
                    loc.violation("spider-refused-valid-legs", json!({"s": s, "sm": sm, "t": t, "tm": tm, "w": w, "via_trait": via_trait}));
                }
            }
            Ok(Some(r)) => {
                if !expect {
                    loc.violation("spider-accepted-leg-outside-node-list", json!({"s": s, "sm": sm, "t": t, "tm": tm, "w": w, "via_trait": via_trait}));
                } else if !iso(&r, &P::spider(s, t, w)) || !r.edges.is_empty() {
                    loc.violation("spider-is-not-the-given-cospan", json!({"s": s, "t": t, "w": w, "got": r}));
                }
            }
        }
    }
    // lax entry point
    loc.trans(1);
    let ls = VFF { table: VecArray(s.to_vec()), target: sm };
    let lt = VFF { table: VecArray(t.to_vec()), target: tm };
    let wv = w.to_vec();
    match catch(|| LOpen::<u8, u8>::spider(ls, lt, wv)) {
        Err(p) => loc.violation("lax-spider:panic", json!({"s": s, "sm": sm, "t": t, "tm": tm, "w": w, "msg": p})),
        Ok(None) => {
            if expect {
                loc.violation("lax-spider-refused-valid-legs", json!({"s": s, "sm": sm, "t": t, "tm": tm, "w": w}));
            }
        }
        Ok(Some(r)) => {
            if !expect {
                loc.violation("lax-spider-accepted-leg-outside-node-list", json!({"s": s, "sm": sm, "t": t, "tm": tm, "w": w}));
            } else {
                match decode_lax(&r).ok().and_then(|d| d.strictify()) {
                    Some(d) if iso(&d, &P::spider(s, t, w)) && d.edges.is_empty() => {}
                    other => loc.violation("lax-spider-is-not-the-given-cospan", json!({"s": s, "t": t, "w": w, "got": format!("{:?}", other)})),
                }
            }
        }
    }
    // half spider = spider with identity target leg
    if tm == w.len() && t.len() == tm && t.iter().enumerate().all(|(i, &x)| i == x) {
        loc.trans(1);
        match B::half_spider::<u8, u8>((s, sm), w) {
            Err(e) => fail(loc, "half_spider", &e, json!({"s": s, "sm": sm, "w": w})),
            Ok(r) => {
                // half_spider(s, w) uses t = identity on s.target; defined iff s.target == |w|
                let exp = if sm == w.len() { Some(P::spider(s, t, w)) } else { None };
                let ok = match (&r, &exp) {
                    (None, None) => true,
                    (Some(a), Some(b)) => iso(a, b),
                    _ => false,
                };
                if !ok {
                    loc.violation("half-spider-is-not-spider-with-identity-leg", json!({"s": s, "sm": sm, "w": w, "got": r, "expected": exp}));
                }
            }
        }
    }
    if !expect {
        loc.nontrivial();
    }
    loc.outcome(&(expect, s.len(), t.len(), w.len()));
    loc.sample(|| json!({"s": s, "s_codomain": sm, "t": t, "t_codomain": tm, "w": w}));
}

/// spider fusion: spider(s,t,w) ; spider(s2,t2,w2)
pub fn check_fusion<B: StrictOps>(a: &P, b: &P, loc: &mut Local) {
    let expected = a.compose(b);
    loc.trans(1);
    let got = B::spider::<u8, u8>((&a.s, a.nodes.len()), (&a.t, a.nodes.len()), &a.nodes, true).and_then(|x| {
        B::spider::<u8, u8>((&b.s, b.nodes.len()), (&b.t, b.nodes.len()), &b.nodes, false).and_then(|y| match (x, y) {
            (Some(x), Some(y)) => B::compose(&x, &y),
            _ => Err(Fail::Malformed("spider construction refused valid legs".into())),
        })
    });
    match (got, &expected) {
        (Err(e), _) => fail(loc, "fusion", &e, json!({"a": a, "b": b})),
        (Ok(None), None) => {}
        (Ok(Some(r)), Some(e)) => {
            if !r.edges.is_empty() {
                loc.violation("fusion-not-discrete", json!({"a": a, "b": b, "got": r}));
            }
            match B::is_discrete(&r) {
                Ok(true) => {}
                other => loc.violation("fusion-is_discrete-false", json!({"a": a, "b": b, "got": format!("{:?}", other)})),
            }
            if !iso(&r, e) {
                loc.violation("fusion-is-not-the-glued-spider", json!({"a": a, "b": b, "expected": e, "got": r}));
            }
            if a.t.len() >= 2 {
                loc.nontrivial();
            }
            loc.outcome(&(r.nodes.len(), r.s.len(), r.t.len()));
        }
        (g, e) => loc.violation("fusion-definedness", json!({"a": a, "b": b, "got": format!("{:?}", g), "expected": e})),
    }
    // lax fusion, strictified
    if let Some(e) = &expected {
        loc.trans(1);
        let (la, lb) = (build_lax(&L::strict(a.clone())), build_lax(&L::strict(b.clone())));
        match catch(|| Arrow::compose(&la, &lb).map(|c| decode_lax(&c))) {
            Err(p) => loc.violation("lax-fusion:panic", json!({"a": a, "b": b, "msg": p})),
            Ok(Some(Ok(c))) => match c.strictify() {
                Some(st) if iso(&st, e) && st.edges.is_empty() => {}
                other => loc.violation("lax-fusion-is-not-the-glued-spider", json!({"a": a, "b": b, "expected": e, "got": format!("{:?}", other)})),
            },
            other => loc.violation("lax-fusion-definedness", json!({"a": a, "b": b, "got": format!("{:?}", other)})),
        }
    }
    loc.sample(|| json!({"a": a, "b": b}));
}

/// identities and symmetries are spiders
pub fn check_id_twist_are_spiders<B: StrictOps>(a: &[u8], b: &[u8], loc: &mut Local) {
    loc.trans(3);
    let idv: Vec<usize> = (0..a.len()).collect();
    match (B::identity::<u8, u8>(a), B::spider::<u8, u8>((&idv, a.len()), (&idv, a.len()), a, true)) {
        (Ok(i), Ok(Some(s))) => {
            if !iso(&i, &s) {
                loc.violation("identity-is-not-the-identity-spider", json!({"a": a, "identity": i, "spider": s}));
            }
        }
        other => loc.violation("identity-or-spider-failed", json!({"a": a, "got": format!("{:?}", other)})),
    }
    match B::twist::<u8, u8>(a, b) {
        Ok(t) => {
            if !t.edges.is_empty() || B::is_discrete(&t) != Ok(true) {
                loc.violation("twist-not-discrete", json!({"a": a, "b": b, "got": t}));
            }
            if !iso(&t, &P::twist(a, b)) {
                loc.violation("twist-is-not-the-symmetry-spider", json!({"a": a, "b": b, "got": t}));
            }
        }
        Err(e) => fail(loc, "twist", &e, json!({"a": a, "b": b})),
    }
    loc.nontrivial();
}

// ---- lax dagger -------------------------------------------------------------------------------

pub fn check_lax_dagger(f: &L, loc: &mut Local) {
    loc.trans(2);
    let lf = build_lax(f);
    match catch(|| Spider::<open_hypergraphs::array::vec::VecKind>::dagger(&lf)) {
        Err(p) => loc.violation("lax-dagger:panic", json!({"f": f, "msg": p})),
        Ok(d) => match decode_lax(&d) {
            Ok(dd) => {
                let exp = L { open: f.open.dagger(), quot: f.quot.clone() };
                if dd != exp {
                    loc.violation("lax-dagger-is-not-the-swap", json!({"f": f, "got": dd}));
                }
                let back = catch(|| Spider::<open_hypergraphs::array::vec::VecKind>::dagger(&d));
                match back.map(|b| decode_lax(&b)) {
                    Ok(Ok(b)) if b == *f => {}
                    other => loc.violation("lax-dagger-not-involutive", json!({"f": f, "got": format!("{:?}", other)})),
                }
            }
            Err(m) => loc.violation("lax-dagger:malformed-output", json!({"f": f, "msg": m})),
        },
    }
    if !f.quot.is_empty() && f.open.s != f.open.t {
        loc.nontrivial();
    }
    loc.outcome(&(f.open.s.len(), f.open.t.len(), f.quot.len()));
}
