//! C14 — optics: typing and routing, functoriality, reverse derivatives.
use crate::laxconv::*;
use crate::onvec::decode_open;
use crate::ops::*;
use crate::tf::*;
use ohmc_core::explore::*;
use ohmc_core::iso::iso;
use ohmc_core::plain::*;
use serde::Serialize;
use serde_json::json;
use std::sync::Arc;

type P = POpen<u8, u8>;
type L = PLax<u8, u8>;

// ---- routing optics: labelled singleton forward / reverse images ------------------------------

#[derive(Clone, Copy, Debug, PartialEq, Eq, Hash, Serialize)]
pub struct Route {
    /// |F(0)|, |F(1)| ; |R(0)|, |R(1)| ; |M(op 0)|, |M(op 1)|
    pub f: [usize; 2],
    pub r: [usize; 2],
    pub m: [usize; 2],
}

pub fn routes(values: &[usize]) -> Vec<Route> {
    let mut v = vec![];
    for &a in values {
        for &b in values {
            for &c in values {
                for &d in values {
                    for &e in values {
                        for &g in values {
                            v.push(Route { f: [a, b], r: [c, d], m: [e, g] });
                        }
                    }
                }
            }
        }
    }
    v
}

impl PlainOptic for Route {
    fn fobj(&self, l: u8) -> Vec<u8> {
        (0..self.f[l.min(1) as usize]).map(|k| 10 * (l.min(1) + 1) + k as u8).collect()
    }
    fn robj(&self, l: u8) -> Vec<u8> {
        (0..self.r[l.min(1) as usize]).map(|k| 40 + 10 * l.min(1) + k as u8).collect()
    }
    fn residual(&self, x: u8) -> Vec<u8> {
        (0..self.m[x.min(1) as usize]).map(|k| 70 + 10 * x.min(1) + k as u8).collect()
    }
    fn fwd(&self, x: u8, a: &[u8], b: &[u8]) -> P {
        P::singleton(100 + x, &fobjs(self, a), &[fobjs(self, b), self.residual(x)].concat())
    }
    fn rev(&self, x: u8, a: &[u8], b: &[u8]) -> P {
        P::singleton(150 + x, &[self.residual(x), robjs(self, b)].concat(), &robjs(self, a))
    }
}

/// the same optic through the lax trait
#[derive(Clone)]
pub struct LaxOptic(pub Arc<dyn PlainOptic>, pub bool);

impl LaxOptic {
    /// generator images as they are (false) or handed over un-quotiented, every node occurrence a node of its own
    /// chained by pending unifications (true)
    fn image(&self, p: P) -> LOpen<u8, u8> {
        build_lax(&if self.1 { L::exploded(&p) } else { L::strict(p) })
    }
}

impl open_hypergraphs::lax::optic::Optic<u8, u8, u8, u8> for LaxOptic {
    fn fwd_object(&self, o: &u8) -> Vec<u8> {
        self.0.fobj(*o)
    }
    fn fwd_operation(&self, a: &u8, source: &[u8], target: &[u8]) -> LOpen<u8, u8> {
        self.image(self.0.fwd(*a, source, target))
    }
    fn rev_object(&self, o: &u8) -> Vec<u8> {
        self.0.robj(*o)
    }
    fn rev_operation(&self, a: &u8, source: &[u8], target: &[u8]) -> LOpen<u8, u8> {
        self.image(self.0.rev(*a, source, target))
    }
    fn residual(&self, a: &u8) -> Vec<u8> {
        self.0.residual(*a)
    }
}

fn interleave(o: &dyn PlainOptic, ls: &[u8]) -> Vec<u8> {
    ls.iter().flat_map(|&l| [o.fobj(l), o.robj(l)].concat()).collect()
}

pub fn check_optic<B: StrictOps>(f: &P, o: Arc<dyn PlainOptic>, tag: &serde_json::Value, lax_too: bool, loc: &mut Local) {
    let (a, b) = (f.source_type(), f.target_type());
    let c_ref = optic_reference(&*o, f);
    let d_ref = optic_adapt_reference(&*o, &c_ref, &a, &b);
    let case = || json!({"f": f, "optic": tag, "backend": B::NAME});
    loc.trans(2);
    match B::optic_apply(f, o.clone()) {
        Err(e) => loc.violation(&format!("optic:{}", e.kind()), json!({"case": case(), "failure": e.msg()})),
        Ok((c, d)) => {
            if c.source_type() != interleave(&*o, &a) || c.target_type() != interleave(&*o, &b) {
                loc.violation("optic:wrong-type", json!({"case": case(), "got": c}));
            } else if !iso(&c, &c_ref) {
                loc.violation("optic:misrouted", json!({"case": case(), "got": c, "expected": c_ref}));
            }
            let exp_s = [fobjs(&*o, &a), robjs(&*o, &b)].concat();
            let exp_t = [fobjs(&*o, &b), robjs(&*o, &a)].concat();
            if d.source_type() != exp_s || d.target_type() != exp_t {
                loc.violation("adapt:wrong-type", json!({"case": case(), "got": d}));
            } else if !iso(&d, &d_ref) {
                loc.violation("adapt:misrouted", json!({"case": case(), "got": d, "expected": d_ref}));
            }
            if f.is_monogamous() && !d.is_monogamous() {
                loc.violation("adapt:not-monogamous", json!({"case": case(), "got": d}));
            }
            loc.outcome(&(c.nodes.len(), c.edges.len(), c.s.len(), c.t.len()));
        }
    }
    if lax_too {
        use open_hypergraphs::lax::optic::Optic as _;
        // generator images as strict diagrams, and handed over un-quotiented (every node occurrence its own node,
        // chained by pending unifications)
        for exploded in [false, true] {
            loc.trans(2);
            let lo = LaxOptic(o.clone(), exploded);
            let lf = build_lax(&L::strict(f.clone()));
            let dec = |r: Result<LOpen<u8, u8>, String>| -> Result<P, String> { r.and_then(|l| catch(|| l.to_strict())).and_then(|s| decode_open(&s)) };
            match dec(catch(|| lo.map_arrow(lf.clone()))) {
                Err(m) => loc.violation("lax-optic:failed", json!({"case": case(), "why": m, "images_unquotiented": exploded})),
                Ok(c) => {
                    if !iso(&c, &c_ref) {
                        loc.violation("lax-optic:misrouted", json!({"case": case(), "got": c, "expected": c_ref, "images_unquotiented": exploded}));
                    }
                }
            }
            match dec(catch(|| lo.map_adapted(lf.clone()))) {
                Err(m) => loc.violation("lax-adapted:failed", json!({"case": case(), "why": m, "images_unquotiented": exploded})),
                Ok(d) => {
                    if !iso(&d, &d_ref) {
                        loc.violation("lax-adapted:misrouted", json!({"case": case(), "got": d, "expected": d_ref, "images_unquotiented": exploded}));
                    }
                }
            }
        }
    }
    if !f.edges.is_empty() {
        loc.nontrivial_sub();
    }
}

pub fn check_optic_functoriality<B: StrictOps>(f: &P, g: &P, o: Arc<dyn PlainOptic>, tag: &serde_json::Value, loc: &mut Local) {
    let ap = |x: &P| B::optic_apply(x, o.clone()).map(|r| r.0);
    let case = || json!({"f": f, "g": g, "optic": tag});
    loc.trans(6);
    if f.target_type() == g.source_type() {
        let l = B::compose(f, g).and_then(|c| match c {
            Some(c) => ap(&c),
            None => Err(Fail::Malformed("compose refused matching types".into())),
        });
        let r = ap(f).and_then(|x| ap(g).and_then(|y| B::compose(&x, &y)));
        match (l, r) {
            (Ok(l), Ok(Some(r))) => {
                if !iso(&l, &r) {
                    loc.violation("optic-functoriality:composition", json!({"case": case(), "left": l, "right": r}));
                }
            }
            other => loc.violation("optic-functoriality:composition-undefined", json!({"case": case(), "got": format!("{:?}", other)})),
        }
        loc.nontrivial_sub();
    }
    let l = B::tensor(f, g).and_then(|c| ap(&c));
    let r = ap(f).and_then(|x| ap(g).and_then(|y| B::tensor(&x, &y)));
    match (l, r) {
        (Ok(l), Ok(r)) => {
            if !iso(&l, &r) {
                loc.violation("optic-functoriality:tensor", json!({"case": case(), "left": l, "right": r}));
            }
        }
        other => loc.violation("optic-functoriality:tensor-failed", json!({"case": case(), "got": format!("{:?}", other)})),
    }
}

// ---- reverse derivatives of polynomial circuits ------------------------------------------------

pub const ADD: u8 = 0;
pub const MUL: u8 = 1;
pub const NEG: u8 = 2;
pub const COPY: u8 = 3;
pub const DISCARD: u8 = 4;
pub const CONST0: u8 = 5; // CONST0 + c for c in 0..3
pub const GENS: [(u8, usize, usize); 8] = [(ADD, 2, 1), (MUL, 2, 1), (NEG, 1, 1), (COPY, 1, 2), (DISCARD, 1, 0), (CONST0, 0, 1), (CONST0 + 1, 0, 1), (CONST0 + 2, 0, 1)];

pub fn poly_interp(l: &u8, a: &[u64]) -> Vec<u64> {
    match *l {
        ADD => vec![a[0].wrapping_add(a[1])],
        MUL => vec![a[0].wrapping_mul(a[1])],
        NEG => vec![a[0].wrapping_neg()],
        COPY => vec![a[0], a[0]],
        DISCARD => vec![],
        c if c >= CONST0 && c < CONST0 + 3 => vec![(c - CONST0) as u64],
        _ => panic!("unknown generator"),
    }
}

/// the standard reverse-derivative lenses; values carry label 0, gradients label 1
pub struct RDiff;

fn op(l: u8, a: usize, b: usize, va: u8, vb: u8) -> P {
    P::singleton(l, &vec![va; a], &vec![vb; b])
}

impl PlainOptic for RDiff {
    fn fobj(&self, _l: u8) -> Vec<u8> {
        vec![0]
    }
    fn robj(&self, _l: u8) -> Vec<u8> {
        vec![1]
    }
    fn residual(&self, x: u8) -> Vec<u8> {
        if x == MUL {
            vec![0, 0]
        } else {
            vec![]
        }
    }
    fn fwd(&self, x: u8, a: &[u8], b: &[u8]) -> P {
        match x {
            MUL => {
                // (x, y) -> (x*y, x, y): copy both, multiply one copy of each, keep the others as residual
                let cc = op(COPY, 1, 2, 0, 0).tensor(&op(COPY, 1, 2, 0, 0)); // x x' y y'
                // reorder x x' y y' -> x y x' y'
                let perm = P { nodes: vec![0; 4], edges: vec![], s: vec![0, 1, 2, 3], t: vec![0, 2, 1, 3] };
                let tail = op(MUL, 2, 1, 0, 0).tensor(&P::identity(&[0, 0]));
                cc.compose(&perm).unwrap().compose(&tail).unwrap()
            }
            _ => op(x, a.len(), b.len(), 0, 0),
        }
    }
    fn rev(&self, x: u8, _a: &[u8], _b: &[u8]) -> P {
        match x {
            ADD => op(COPY, 1, 2, 1, 1),
            NEG => op(NEG, 1, 1, 1, 1),
            COPY => op(ADD, 2, 1, 1, 1),
            DISCARD => op(CONST0, 0, 1, 1, 1),
            MUL => {
                // (x, y, dz) -> (y*dz, x*dz)
                let idc = P::identity(&[0, 0]).tensor(&op(COPY, 1, 2, 1, 1)); // x y dz dz'
                let perm = P { nodes: vec![0, 0, 1, 1], edges: vec![], s: vec![0, 1, 2, 3], t: vec![1, 2, 0, 3] }; // y dz x dz'
                let mulg = P { nodes: vec![0, 1, 1], edges: vec![PEdge { label: MUL, src: vec![0, 1], tgt: vec![2] }], s: vec![0, 1], t: vec![2] };
                idc.compose(&perm).unwrap().compose(&mulg.tensor(&mulg)).unwrap()
            }
            _ => op(DISCARD, 1, 0, 1, 1), // constants
        }
    }
}

/// all monogamous acyclic circuits with `k` inputs and at most `g` generators, built by applying
/// generators to ordered choices of open wires; every output order; every edge order
pub fn circuits(k: usize, g: usize, max_out: usize) -> Vec<P> {
    fn rec(nodes: usize, edges: &mut Vec<PEdge<u8>>, open: &mut Vec<usize>, left: usize, k: usize, max_out: usize, out: &mut Vec<P>) {
        // close: every open wire becomes an output, in every order
        if open.len() <= max_out {
            for perm in ohmc_core::iso::all_permutations(open.len()) {
                let t: Vec<usize> = perm.iter().map(|&i| open[i]).collect();
                let base = P { nodes: vec![0; nodes], edges: edges.clone(), s: (0..k).collect(), t };
                // every order of the hyperedges
                for ep in ohmc_core::iso::all_permutations(edges.len()) {
                    let idn: Vec<usize> = (0..nodes).collect();
                    out.push(base.renumber(&idn, &ep));
                }
            }
        }
        if left == 0 {
            return;
        }
        for (l, ai, ao) in GENS.iter() {
            // ordered choices of `ai` distinct open wires
            let choices = ordered_choices(open.len(), *ai);
            for ch in choices {
                let src: Vec<usize> = ch.iter().map(|&i| open[i]).collect();
                let tgt: Vec<usize> = (nodes..nodes + ao).collect();
                let saved = open.clone();
                let mut rest: Vec<usize> = (0..open.len()).filter(|i| !ch.contains(i)).map(|i| open[i]).collect();
                rest.extend(tgt.iter().cloned());
                *open = rest;
                edges.push(PEdge { label: *l, src, tgt });
                rec(nodes + ao, edges, open, left - 1, k, max_out, out);
                edges.pop();
                *open = saved;
            }
        }
    }
    fn ordered_choices(n: usize, k: usize) -> Vec<Vec<usize>> {
        let mut res = vec![vec![]];
        for _ in 0..k {
            let mut next = vec![];
            for r in &res {
                for i in 0..n {
                    if !r.contains(&i) {
                        let mut r2: Vec<usize> = r.clone();
                        r2.push(i);
                        next.push(r2);
                    }
                }
            }
            res = next;
        }
        res
    }
    let mut out = vec![];
    rec(k, &mut vec![], &mut (0..k).collect(), g, k, max_out, &mut out);
    out
}

/// forward-mode dual numbers on the plain circuit: value and derivative w.r.t. one input
fn dual_eval(f: &P, x: &[u64], seed: usize) -> Vec<(u64, u64)> {
    fn val(f: &P, x: &[u64], seed: usize, memo: &mut Vec<Option<(u64, u64)>>, v: usize) -> (u64, u64) {
        if let Some(r) = memo[v] {
            return r;
        }
        let r = if let Some(p) = f.s.iter().position(|&n| n == v) {
            (x[p], if p == seed { 1 } else { 0 })
        } else {
            let (e, j) = f.edges.iter().find_map(|e| e.tgt.iter().position(|&n| n == v).map(|j| (e, j))).expect("node has a writer");
            let a: Vec<(u64, u64)> = e.src.iter().map(|&s| val(f, x, seed, memo, s)).collect();
            match e.label {
                ADD => (a[0].0.wrapping_add(a[1].0), a[0].1.wrapping_add(a[1].1)),
                MUL => (a[0].0.wrapping_mul(a[1].0), a[0].1.wrapping_mul(a[1].0).wrapping_add(a[0].0.wrapping_mul(a[1].1))),
                NEG => (a[0].0.wrapping_neg(), a[0].1.wrapping_neg()),
                COPY => a[0],
                c => {
                    let _ = j;
                    ((c - CONST0) as u64, 0)
                }
            }
        };
        memo[v] = Some(r);
        r
    }
    let mut memo = vec![None; f.nodes.len()];
    f.t.iter().map(|&v| val(f, x, seed, &mut memo, v)).collect()
}

pub const REPS: [u64; 5] = [0, 1, 2, 3, u64::MAX];

pub fn check_derivative<B: StrictOps>(f: &P, lax_entry: bool, loc: &mut Local) {
    let (k, m) = (f.s.len(), f.t.len());
    let case = || json!({"circuit": f, "backend": B::NAME});
    loc.trans(1);
    let o: Arc<dyn PlainOptic> = Arc::new(RDiff);
    let d = if lax_entry {
        use open_hypergraphs::lax::optic::Optic as _;
        let lf = build_lax(&L::strict(f.clone()));
        // every second circuit with the lens images handed over un-quotiented
        let exploded = (f.nodes.len() + f.edges.len()) % 2 == 1;
        match catch(|| LaxOptic(o.clone(), exploded).map_adapted(lf).to_strict()).and_then(|s| decode_open(&s)) {
            Ok(d) => d,
            Err(why) => return loc.violation("derivative:lax-map_adapted-failed", json!({"case": case(), "why": why})),
        }
    } else {
        match B::optic_apply(f, o.clone()) {
            Ok((_, d)) => d,
            Err(e) => return loc.violation(&format!("derivative:optic:{}", e.kind()), json!({"case": case(), "failure": e.msg()})),
        }
    };
    if d.s.len() != k + m || d.t.len() != m + k {
        return loc.violation("derivative:wrong-arity", json!({"case": case(), "adapted": d}));
    }
    // inputs: all x over the representatives; dy: unit vectors, all ones and a mixed vector
    let mut dys: Vec<Vec<u64>> = (0..m).map(|j| (0..m).map(|i| if i == j { 1 } else { 0 }).collect()).collect();
    dys.push(vec![1; m]);
    dys.push((0..m).map(|i| REPS[(i + 2) % 5]).collect());
    dys.dedup();
    let nx = 5u64.pow(k as u32);
    for xi in 0..nx {
        let x: Vec<u64> = (0..k).map(|p| REPS[((xi / 5u64.pow(p as u32)) % 5) as usize]).collect();
        let fx: Vec<u64> = crate::props::c16::reference_eval_with(f, &x, &poly_interp).0;
        let jac: Vec<Vec<(u64, u64)>> = (0..k).map(|i| dual_eval(f, &x, i)).collect(); // jac[i][j] = d out_j / d x_i
        for dy in &dys {
            let mut inp = x.clone();
            inp.extend(dy.iter().cloned());
            loc.trans(1);
            let expected: Vec<u64> = fx.iter().cloned().chain((0..k).map(|i| (0..m).fold(0u64, |acc, j| acc.wrapping_add(jac[i][j].1.wrapping_mul(dy[j]))))).collect();
            match B::eval(&d, &inp, &poly_interp) {
                Err(e) => return loc.violation(&format!("derivative:eval:{}", e.kind()), json!({"case": case(), "failure": e.msg(), "adapted": d})),
                Ok((None, _)) => return loc.violation("derivative:adapted-optic-not-evaluable", json!({"case": case(), "adapted": d})),
                Ok((Some(got), _)) => {
                    if got != expected {
                        return loc.violation("derivative:wrong", json!({"case": case(), "x": x, "dy": dy, "got": got, "expected": expected, "adapted": d}));
                    }
                }
            }
        }
    }
    if f.edges.len() >= 2 {
        loc.nontrivial();
    }
    loc.outcome(&(k, m, f.edges.iter().map(|e| e.label).collect::<Vec<_>>()));
    loc.sample(|| json!({"circuit": f}));
}
