//! C19 — Var-built terms mean the expression written; forgetting copies keeps meaning.
use crate::laxconv::*;
use crate::onvec::decode_open;
use crate::ops::StrictOps;
use ohmc_core::explore::*;
use ohmc_core::iso::iso;
use ohmc_core::plain::*;
use open_hypergraphs::lax::var::*;
use serde::Serialize;
use serde_json::json;
use std::cell::RefCell;
use std::rc::Rc;

/// operation labels of the test signature; `Sig(0)` is the variable label
#[derive(Clone, Copy, PartialEq, Eq, Hash, Debug, PartialOrd, Ord, Serialize)]
pub struct Sig(pub u8);

impl HasVar for Sig {
    fn var() -> Self {
        Sig(0)
    }
}

pub const BIN_KINDS: usize = 10; // ^ & | << >> + * - /  (9 binary) -- index 9 unused
pub const UN_KINDS: usize = 2; // ! and unary -

fn bin_label(kind: u8, l: u8, r: u8) -> (u8, Sig) {
    // result type and operation both depend on BOTH operand types
    ((l + 2 * r + kind) % 2, Sig(10 + kind * 4 + l * 2 + r))
}
fn un_label(kind: u8, t: u8) -> (u8, Sig) {
    ((t + kind + 1) % 2, Sig(60 + kind * 2 + t))
}

macro_rules! impl_bin {
    ($tr:ident, $f:ident, $k:expr) => {
        impl $tr<u8, Sig> for Sig {
            fn $f(l: u8, r: u8) -> (u8, Sig) {
                bin_label($k, l, r)
            }
        }
    };
}
impl_bin!(HasBitXor, bitxor, 0);
impl_bin!(HasBitAnd, bitand, 1);
impl_bin!(HasBitOr, bitor, 2);
impl_bin!(HasShl, shl, 3);
impl_bin!(HasShr, shr, 4);
impl_bin!(HasAdd, add, 5);
impl_bin!(HasMul, mul, 6);
impl_bin!(HasSub, sub, 7);
impl_bin!(HasDiv, div, 8);
impl HasNot<u8, Sig> for Sig {
    fn not(t: u8) -> (u8, Sig) {
        un_label(0, t)
    }
}
impl HasNeg<u8, Sig> for Sig {
    fn neg(t: u8) -> (u8, Sig) {
        un_label(1, t)
    }
}

#[derive(Clone, Debug, PartialEq, Eq, Hash, Serialize)]
pub enum Stmt {
    NewVar(u8),
    Bin(u8, usize, usize),
    Un(u8, usize),
    /// `operation(builder, vars, result_types, Sig(80 + number of results))`
    Op(Vec<usize>, Vec<u8>, u8),
    /// `fn_operation(builder, vars, result_type, Sig(90 + x))`
    FnOp(Vec<usize>, u8, u8),
}

#[derive(Clone, Debug, PartialEq, Eq, Hash, Serialize)]
pub struct Prog {
    pub stmts: Vec<Stmt>,
    pub sources: Vec<usize>,
    pub targets: Vec<usize>,
    pub leak: bool,
}

type T = LOpen<u8, Sig>;

/// run the program through the real Var interface
pub fn run_real(p: &Prog) -> Result<BuildResult<u8, Sig>, String> {
    run_real_with(p, false)
}

/// `keep_weak`: the closure leaves a `Weak` reference to the builder state behind (not a variable handle: it cannot
/// keep the state alive), which must not make building fail
pub fn run_real_with(p: &Prog, keep_weak: bool) -> Result<BuildResult<u8, Sig>, String> {
    let weaks: RefCell<Vec<std::rc::Weak<RefCell<T>>>> = RefCell::new(vec![]);
    let leaked: RefCell<Vec<Var<u8, Sig>>> = RefCell::new(vec![]);
    let r = catch(|| {
        build(|state: &Rc<RefCell<T>>| {
            if keep_weak {
                weaks.borrow_mut().push(Rc::downgrade(state));
            }
            let mut vars: Vec<Var<u8, Sig>> = vec![];
            for st in &p.stmts {
                match st {
                    Stmt::NewVar(l) => vars.push(Var::new(state.clone(), *l)),
                    Stmt::Bin(k, i, j) => {
                        let (a, b) = (vars[*i].clone(), vars[*j].clone());
                        let r = match k {
                            0 => a ^ b,
                            1 => a & b,
                            2 => a | b,
                            3 => a << b,
                            4 => a >> b,
                            5 => a + b,
                            6 => a * b,
                            7 => a - b,
                            _ => a / b,
                        };
                        vars.push(r);
                    }
                    Stmt::Un(k, i) => {
                        let a = vars[*i].clone();
                        vars.push(if *k == 0 { !a } else { -a });
                    }
                    Stmt::Op(vs, rts, x) => {
                        let args: Vec<Var<u8, Sig>> = vs.iter().map(|&i| vars[i].clone()).collect();
                        let _ = x;
                        let rs = operation(state, &args, rts.clone(), Sig(80 + rts.len() as u8));
                        vars.extend(rs);
                    }
                    Stmt::FnOp(vs, rt, x) => {
                        let args: Vec<Var<u8, Sig>> = vs.iter().map(|&i| vars[i].clone()).collect();
                        vars.push(fn_operation(state, &args, *rt, Sig(90 + x)));
                    }
                }
            }
            if p.leak {
                if let Some(v) = vars.first() {
                    leaked.borrow_mut().push(v.clone());
                }
            }
            (p.sources.iter().map(|&i| vars[i].clone()).collect(), p.targets.iter().map(|&i| vars[i].clone()).collect())
        })
    });
    drop(leaked);
    drop(weaks);
    r
}

/// labels of the variables the program creates, in creation order
pub fn var_labels(p: &Prog) -> Vec<u8> {
    let mut ls: Vec<u8> = vec![];
    for st in &p.stmts {
        match st {
            Stmt::NewVar(l) => ls.push(*l),
            Stmt::Bin(k, i, j) => ls.push(bin_label(*k, ls[*i], ls[*j]).0),
            Stmt::Un(k, i) => ls.push(un_label(*k, ls[*i]).0),
            Stmt::Op(_, rts, _) => ls.extend(rts.iter().cloned()),
            Stmt::FnOp(_, rt, _) => ls.push(*rt),
        }
    }
    ls
}

/// the reference term: one hyperedge per application, one variable hyperedge per variable, a
/// fresh node per use and per definition, interfaces in order. Built with a numbering that is
/// deliberately different from the library's (operation edges first, nodes reversed).
pub fn reference_term(p: &Prog) -> POpen<u8, Sig> {
    let labels = var_labels(p);
    let nv = labels.len();
    let mut nodes: Vec<u8> = vec![];
    let mut vsrc: Vec<Vec<usize>> = vec![vec![]; nv];
    let mut vtgt: Vec<Vec<usize>> = vec![vec![]; nv];
    let mut ops: Vec<PEdge<Sig>> = vec![];
    let mut created = 0usize;
    fn fresh(nodes: &mut Vec<u8>, l: u8) -> usize {
        nodes.push(l);
        nodes.len() - 1
    }
    for st in &p.stmts {
        let (args, results, label): (Vec<usize>, usize, Sig) = match st {
            Stmt::NewVar(_) => {
                created += 1;
                continue;
            }
            Stmt::Bin(k, i, j) => (vec![*i, *j], 1, bin_label(*k, labels[*i], labels[*j]).1),
            Stmt::Un(k, i) => (vec![*i], 1, un_label(*k, labels[*i]).1),
            Stmt::Op(vs, rts, _) => (vs.clone(), rts.len(), Sig(80 + rts.len() as u8)),
            Stmt::FnOp(vs, _, x) => (vs.clone(), 1, Sig(90 + x)),
        };
        let src: Vec<usize> = args.iter().map(|&v| {
            let n = fresh(&mut nodes, labels[v]);
            vtgt[v].push(n); // a use reads from the variable: a fresh *target* of its hyperedge
            n
        }).collect();
        let tgt: Vec<usize> = (0..results).map(|r| {
            let v = created + r;
            let n = fresh(&mut nodes, labels[v]);
            vsrc[v].push(n); // a definition writes into the variable: a fresh *source*
            n
        }).collect();
        created += results;
        ops.push(PEdge { label, src, tgt });
    }
    let s: Vec<usize> = p.sources.iter().map(|&v| {
        let n = fresh(&mut nodes, labels[v]);
        vsrc[v].push(n);
        n
    }).collect();
    let t: Vec<usize> = p.targets.iter().map(|&v| {
        let n = fresh(&mut nodes, labels[v]);
        vtgt[v].push(n);
        n
    }).collect();
    let mut edges = ops;
    for v in 0..nv {
        edges.push(PEdge { label: Sig(0), src: vsrc[v].clone(), tgt: vtgt[v].clone() });
    }
    let term = POpen { nodes, edges, s, t };
    let n = term.nodes.len();
    let np: Vec<usize> = (0..n).map(|i| n - 1 - i).collect();
    let ep: Vec<usize> = (0..term.edges.len()).collect();
    term.renumber(&np, &ep)
}

pub fn interp(l: &Sig, a: &[u64], outs: usize) -> Vec<u64> {
    let x = l.0;
    let sum = a.iter().fold(0u64, |s, v| s.wrapping_add(*v));
    match x {
        0 => vec![a.first().cloned().unwrap_or(0); outs], // a variable read as a copy
        10..=59 => vec![a[0].wrapping_mul(x as u64).wrapping_add(a[1].wrapping_mul(3)).wrapping_add(1)],
        60..=79 => vec![a[0].wrapping_mul(5).wrapping_add(x as u64)],
        80..=89 => (0..outs).map(|j| sum.wrapping_mul(j as u64 + 2).wrapping_add(x as u64)).collect(),
        _ => vec![sum.wrapping_mul(7).wrapping_add(x as u64)],
    }
}

/// direct evaluation of the expression program: None if some variable is read before / without
/// exactly one definition
pub fn direct_eval(p: &Prog, inputs: &[u64]) -> Option<Vec<u64>> {
    let labels = var_labels(p);
    let nv = labels.len();
    let mut val: Vec<Option<u64>> = vec![None; nv];
    let mut defs = vec![0usize; nv];
    for (k, &v) in p.sources.iter().enumerate() {
        defs[v] += 1;
        val[v] = Some(inputs[k]);
    }
    let mut created = 0usize;
    // definitions by applications
    let mut pending: Vec<(Vec<usize>, Vec<usize>, Sig)> = vec![];
    for st in &p.stmts {
        let (args, results, label): (Vec<usize>, usize, Sig) = match st {
            Stmt::NewVar(_) => {
                created += 1;
                continue;
            }
            Stmt::Bin(k, i, j) => (vec![*i, *j], 1, bin_label(*k, labels[*i], labels[*j]).1),
            Stmt::Un(k, i) => (vec![*i], 1, un_label(*k, labels[*i]).1),
            Stmt::Op(vs, rts, _) => (vs.clone(), rts.len(), Sig(80 + rts.len() as u8)),
            Stmt::FnOp(vs, _, x) => (vs.clone(), 1, Sig(90 + x)),
        };
        let rs: Vec<usize> = (created..created + results).collect();
        for &r in &rs {
            defs[r] += 1;
        }
        created += results;
        pending.push((args, rs, label));
    }
    if defs.iter().any(|&d| d > 1) {
        return None;
    }
    for (args, rs, label) in pending {
        let a: Option<Vec<u64>> = args.iter().map(|&v| val[v]).collect();
        let a = a?;
        let o = interp(&label, &a, rs.len());
        for (k, &r) in rs.iter().enumerate() {
            val[r] = Some(o[k]);
        }
    }
    p.targets.iter().map(|&v| val[v]).collect()
}

pub fn check_program<B: StrictOps>(p: &Prog, loc: &mut Local) {
    let case = || json!({"program": p});
    loc.trans(1);
    let built = match run_real(p) {
        Err(m) => return loc.violation("build:panic", json!({"case": case(), "panic": m})),
        Ok(b) => b,
    };
    // the same program with a weak reference to the builder state left behind: same verdict, same term
    if !p.leak {
        loc.trans(1);
        match (run_real_with(p, true), &built) {
            (Ok(Ok(tw)), Ok(t)) if tw == *t => {}
            (Ok(Ok(_)), Ok(_)) => return loc.violation("build:term-depends-on-a-weak-reference", case()),
            (Ok(Err(_)), Ok(_)) => return loc.violation("build:failed-although-only-a-weak-reference-outlives-the-builder", case()),
            (Err(m), _) => return loc.violation("build:panic", json!({"case": case(), "panic": m, "weak_reference_kept": true})),
            _ => {}
        }
    }
    let term: T = match (built, p.leak && !p.stmts.is_empty()) {
        (Ok(t), false) => t,
        (Err(rc), true) => {
            // the shared state is handed back; it holds the term
            let t = rc.borrow().clone();
            t
        }
        (Ok(_), true) => return loc.violation("build:succeeded-although-a-handle-outlives-the-builder", case()),
        (Err(_), false) => return loc.violation("build:failed-without-a-leaked-handle", case()),
    };
    let dec = match decode_lax(&term) {
        Ok(d) => d,
        Err(m) => return loc.violation("build:malformed-term", json!({"case": case(), "why": m})),
    };
    if !dec.quot.is_empty() {
        loc.violation("build:term-has-pending-unifications", json!({"case": case(), "term": dec}));
    }
    let reference = reference_term(p);
    if !iso(&dec.open, &reference) {
        return loc.violation("build:term-is-not-the-expression", json!({"case": case(), "got": dec.open, "expected": reference}));
    }
    // forget: every variable hyperedge of a Var-built term is uniform, so all of them disappear
    loc.trans(2);
    for mono in [false, true] {
        let forgotten = catch(|| if mono { forget::forget_monogamous(&term) } else { forget::forget(&term) }.to_strict()).and_then(|s| decode_open(&s));
        match forgotten {
            Err(m) => loc.violation("forget:failed-on-var-built-term", json!({"case": case(), "monogamous_variant": mono, "why": m})),
            Ok(fg) => {
                let exp = forget_reference(&dec, mono);
                if !iso(&fg, &exp) {
                    loc.violation("forget:not-the-rewrite", json!({"case": case(), "monogamous_variant": mono, "got": fg, "expected": exp}));
                } else if !mono {
                    // meaning: evaluate the forgotten term with the real evaluator
                    let k = p.sources.len();
                    for xi in 0..3u64.pow(k as u32) {
                        let x: Vec<u64> = (0..k).map(|q| (xi / 3u64.pow(q as u32)) % 3 + 1).collect();
                        if let Some(expected) = direct_eval(p, &x) {
                            loc.trans(1);
                            // output arity is not visible to the callback: use the plain term's arities by label position
                            // the callback does not see output arities: they are encoded in the labels
                            let it = move |l: &Sig, a: &[u64]| -> Vec<u64> { interp(l, a, if (80..90).contains(&l.0) { (l.0 - 80) as usize } else { 1 }) };
                            match B::eval(&fg, &x, &it) {
                                Ok((Some(got), _)) => {
                                    if got != expected {
                                        loc.violation("forget:meaning-differs-from-the-expression", json!({"case": case(), "x": x, "got": got, "expected": expected, "forgotten": fg}));
                                    }
                                }
                                other => loc.violation("forget:forgotten-term-not-evaluable", json!({"case": case(), "got": format!("{:?}", other.map(|o| o.0))})),
                            }
                        }
                    }
                }
            }
        }
    }
    if p.stmts.len() >= 3 {
        loc.nontrivial();
    }
    loc.outcome(&(dec.open.nodes.len(), dec.open.edges.len(), p.sources.len(), p.targets.len(), p.leak));
    loc.sample(|| case());
}

/// reference rewrite of forgetting on a (label-consistent) lax term: exactly the uniform variable
/// hyperedges are replaced by one merged node (by nothing when they have no incident node)
pub fn forget_reference(l: &PLax<u8, Sig>, mono: bool) -> POpen<u8, Sig> {
    let s = l.strictify().expect("label consistent");
    let mut pairs: Vec<(usize, usize)> = vec![];
    let mut keep = vec![];
    for e in &s.edges {
        let inc: Vec<usize> = e.src.iter().chain(e.tgt.iter()).cloned().collect();
        let uniform = inc.iter().all(|&v| s.nodes[v] == s.nodes[inc[0]]);
        let eligible = e.label == Sig(0) && uniform && (!mono || (e.src.len() == 1 && e.tgt.len() == 1));
        if eligible {
            for w in inc.windows(2) {
                pairs.push((w[0], w[1]));
            }
        } else {
            keep.push(e.clone());
        }
    }
    let g = POpen { nodes: s.nodes.clone(), edges: keep, s: s.s.clone(), t: s.t.clone() };
    let (q, k) = classes(g.nodes.len(), &pairs);
    g.map_nodes_through(&q, k).expect("merged nodes carry one label")
}

/// forget on an arbitrary well-formed lax term (not only Var-built ones)
pub fn check_forget_term(l8: &PLax<u8, u8>, loc: &mut Local) {
    if !l8.label_consistent() {
        return;
    }
    let l: PLax<u8, Sig> = PLax { open: POpen { nodes: l8.open.nodes.clone(), edges: l8.open.edges.iter().map(|e| PEdge { label: Sig(e.label), src: e.src.clone(), tgt: e.tgt.clone() }).collect(), s: l8.open.s.clone(), t: l8.open.t.clone() }, quot: l8.quot.clone() };
    let term = build_lax(&l);
    for mono in [false, true] {
        loc.trans(1);
        let r = catch(|| if mono { forget::forget_monogamous(&term) } else { forget::forget(&term) });
        match r.and_then(|t| decode_lax(&t).map(|d| (d, t))) {
            Err(m) => loc.violation("forget:does-not-return", json!({"term": l, "monogamous_variant": mono, "why": m})),
            Ok((d, t)) => {
                let exp = forget_reference(&l, mono);
                let got = match catch(|| t.to_strict()).and_then(|s| decode_open(&s)) {
                    Ok(g) => g,
                    Err(m) => {
                        loc.violation("forget:result-cannot-be-strictified", json!({"term": l, "monogamous_variant": mono, "why": m}));
                        continue;
                    }
                };
                if d.open.source_type() != l.open.source_type() || d.open.target_type() != l.open.target_type() {
                    loc.violation("forget:type-changed", json!({"term": l, "monogamous_variant": mono, "got": d}));
                } else if !iso(&got, &exp) {
                    loc.violation("forget:not-the-rewrite", json!({"term": l, "monogamous_variant": mono, "got": got, "expected": exp}));
                }
                loc.outcome(&(mono, got.nodes.len(), got.edges.len()));
            }
        }
    }
    if l.open.edges.iter().any(|e| e.label == Sig(0)) {
        loc.nontrivial();
    }
    loc.sample(|| json!({"term": l}));
}

/// all programs: `inputs` NewVar statements interleaved anywhere, up to `apps` applications drawn
/// from the given statement kinds
pub fn programs(max_new: usize, apps: usize, rich: bool) -> Vec<Prog> {
    programs_with(max_new, apps, rich, 2)
}

/// as `programs`, with source / target lists of length at most `close`
pub fn programs_with(max_new: usize, apps: usize, rich: bool, close: usize) -> Vec<Prog> {
    let mut out = vec![];
    fn rec(stmts: &mut Vec<Stmt>, labels: &mut Vec<u8>, news: usize, apps: usize, max_new: usize, max_apps: usize, rich: bool, close: usize, out: &mut Vec<Prog>) {
        // close the program: choose sources and targets among the variables
        let nv = labels.len();
        for s in ohmc_core::uni::lists(nv, close) {
            for t in ohmc_core::uni::lists(nv, close) {
                out.push(Prog { stmts: stmts.clone(), sources: s.clone(), targets: t.clone(), leak: false });
            }
        }
        if news < max_new {
            for l in 0..2u8 {
                stmts.push(Stmt::NewVar(l));
                labels.push(l);
                rec(stmts, labels, news + 1, apps, max_new, max_apps, rich, close, out);
                labels.pop();
                stmts.pop();
            }
        }
        if apps < max_apps && nv > 0 {
            let bins: Vec<u8> = if rich { (0..9).collect() } else { vec![5, 7] };
            for k in bins {
                for i in 0..nv {
                    for j in 0..nv {
                        stmts.push(Stmt::Bin(k, i, j));
                        labels.push(bin_label(k, labels[i], labels[j]).0);
                        rec(stmts, labels, news, apps + 1, max_new, max_apps, rich, close, out);
                        labels.pop();
                        stmts.pop();
                    }
                }
            }
            for k in 0..2u8 {
                if !rich && k == 0 {
                    continue;
                }
                for i in 0..nv {
                    stmts.push(Stmt::Un(k, i));
                    labels.push(un_label(k, labels[i]).0);
                    rec(stmts, labels, news, apps + 1, max_new, max_apps, rich, close, out);
                    labels.pop();
                    stmts.pop();
                }
            }
            // m -> n operation and n -> 1 fn_operation
            let arg_lists = ohmc_core::uni::lists(nv, if rich { 2 } else { 1 });
            for vs in &arg_lists {
                for rts in ohmc_core::uni::lists(2, 2) {
                    if !rich && rts.len() != 2 {
                        continue;
                    }
                    let rts: Vec<u8> = rts.iter().map(|&x| x as u8).collect();
                    stmts.push(Stmt::Op(vs.clone(), rts.clone(), 0));
                    labels.extend(rts.iter().cloned());
                    rec(stmts, labels, news, apps + 1, max_new, max_apps, rich, close, out);
                    for _ in 0..rts.len() {
                        labels.pop();
                    }
                    stmts.pop();
                }
                if rich || vs.is_empty() {
                    stmts.push(Stmt::FnOp(vs.clone(), 1, 1));
                    labels.push(1);
                    rec(stmts, labels, news, apps + 1, max_new, max_apps, rich, close, out);
                    labels.pop();
                    stmts.pop();
                }
            }
        }
    }
    rec(&mut vec![], &mut vec![], 0, 0, max_new, apps, rich, close, &mut out);
    out
}

/// larger expression programs, as parametrised families: chains, folds over several inputs, one variable
/// used many times, wide operations, unused variables
pub fn structured_programs(kmax: usize) -> Vec<Prog> {
    let mut out = vec![];
    for k in 1..=kmax {
        // unary chain of length k on one input
        let mut st = vec![Stmt::NewVar(0)];
        for i in 0..k {
            st.push(Stmt::Un((i % 2) as u8, i));
        }
        out.push(Prog { stmts: st.clone(), sources: vec![0], targets: vec![k], leak: false });
        out.push(Prog { stmts: st, sources: vec![0], targets: vec![k, 0, k], leak: false });
        // fold over k+1 inputs with alternating operators, inputs declared up front / just in time
        for jit in [false, true] {
            let mut st = vec![];
            let n_in = k + 1;
            if !jit {
                for i in 0..n_in {
                    st.push(Stmt::NewVar((i % 2) as u8));
                }
                let mut acc = 0usize;
                for i in 1..n_in {
                    st.push(Stmt::Bin(if i % 2 == 0 { 5 } else { 7 }, acc, i));
                    acc = n_in + i - 1;
                }
                out.push(Prog { stmts: st, sources: (0..n_in).collect(), targets: vec![acc], leak: false });
            } else {
                // x0; then for each further input: declare it, combine
                st.push(Stmt::NewVar(0));
                let mut acc = 0usize;
                let mut next = 1usize;
                let mut ins = vec![0usize];
                for i in 1..n_in {
                    st.push(Stmt::NewVar((i % 2) as u8));
                    let v = next;
                    next += 1;
                    ins.push(v);
                    st.push(Stmt::Bin(if i % 2 == 0 { 6 } else { 8 }, v, acc));
                    acc = next;
                    next += 1;
                }
                out.push(Prog { stmts: st, sources: ins, targets: vec![acc], leak: false });
            }
        }
        // one variable used k+1 times
        let mut st = vec![Stmt::NewVar(1), Stmt::Bin(5, 0, 0)];
        for i in 1..k {
            st.push(Stmt::Bin(7, i, 0));
        }
        out.push(Prog { stmts: st, sources: vec![0], targets: vec![k], leak: false });
        // a wide operation: k arguments (with repeats), k results, all of them outputs in reverse
        if k <= 4 {
            let mut st: Vec<Stmt> = (0..k).map(|i| Stmt::NewVar((i % 2) as u8)).collect();
            st.push(Stmt::Op((0..k).chain(0..1).collect(), (0..k).map(|i| (i % 2) as u8).collect(), 0));
            out.push(Prog { stmts: st, sources: (0..k).collect(), targets: (k..2 * k).rev().collect(), leak: false });
        }
        // k declared variables, only the last one used
        let mut st: Vec<Stmt> = (0..k).map(|i| Stmt::NewVar((i % 2) as u8)).collect();
        st.push(Stmt::Un(1, k - 1));
        out.push(Prog { stmts: st, sources: vec![k - 1], targets: vec![k], leak: false });
    }
    out
}

/// lax terms with one variable hyperedge of arity a x b (a, b <= 3) under every labelling of its incident
/// nodes, next to an ordinary operation
pub fn structured_forget_terms() -> Vec<PLax<u8, u8>> {
    let mut out = vec![];
    for a in 0..=3usize {
        for b in 0..=3usize {
            let n = a + b + 1;
            for code in 0..(1u32 << n) {
                let nodes: Vec<u8> = (0..n).map(|i| ((code >> i) & 1) as u8).collect();
                let var = PEdge { label: 0u8, src: (0..a).collect(), tgt: (a..a + b).collect() };
                let op = PEdge { label: 1u8, src: if a + b > 0 { vec![a + b - 1] } else { vec![] }, tgt: vec![n - 1] };
                for order in [false, true] {
                    let edges = if order { vec![op.clone(), var.clone()] } else { vec![var.clone(), op.clone()] };
                    out.push(PLax { open: POpen { nodes: nodes.clone(), edges, s: (0..a.min(2)).collect(), t: vec![n - 1] }, quot: vec![] });
                }
            }
        }
    }
    out
}
