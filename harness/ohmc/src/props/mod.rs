pub mod c01;
