pub mod c01;
pub mod c02;
pub mod c03;
pub mod c04;
pub mod c08v;
pub mod c05;
