//! C01 — sequential composition is exactly the gluing (pushout).
use crate::ops::*;
use ohmc_core::explore::*;
use ohmc_core::iso::iso;
use ohmc_core::plain::*;
use serde_json::json;

type P = POpen<u8, u8>;

/// size of the largest identification class and whether anything was merged
pub fn glue_stats<O: Lab, A: Lab>(f: &POpen<O, A>, g: &POpen<O, A>) -> (usize, usize) {
    let n = f.nodes.len();
    let pairs: Vec<(usize, usize)> = f.t.iter().zip(g.s.iter()).map(|(&a, &b)| (a, b + n)).collect();
    let (q, k) = classes(n + g.nodes.len(), &pairs);
    let mut best = 0;
    for c in 0..k {
        best = best.max(q.iter().filter(|&&x| x == c).count());
    }
    (best, k)
}

pub fn check_pair<B: StrictOps>(f: &P, g: &P, loc: &mut Local) {
    check_pair_over::<B, u8, u8>(f, g, loc)
}

/// the same check at other label types (zero-sized labels, strings): composition is generic in the labels
pub fn check_pair_over<B: StrictOps, O: Lab, A: Lab>(f: &POpen<O, A>, g: &POpen<O, A>, loc: &mut Local) {
    let expected = f.compose(g);
    let got = B::compose(f, g);
    loc.trans(1);
    let detail = |got: &dyn std::fmt::Debug| json!({"f": f, "g": g, "expected": expected, "got": format!("{:?}", got), "backend": B::NAME});
    match (&got, &expected) {
        (Err(e), _) => {
            loc.violation(e.kind(), detail(&e));
            return;
        }
        (Ok(None), None) => {
            loc.outcome(&0u8);
        }
        (Ok(Some(r)), None) => loc.violation("composed-despite-type-mismatch", detail(r)),
        (Ok(None), Some(_)) => loc.violation("refused-matching-types", detail(&"None")),
        (Ok(Some(r)), Some(e)) => {
            if !iso(r, e) {
                loc.violation("not-the-gluing", detail(r));
            }
            // the operator form must agree
            let got2 = B::compose_shr(f, g);
            loc.trans(1);
            match got2 {
                Ok(Some(r2)) if r2 == *r => {}
                other => loc.violation("shr-differs-from-compose", detail(&other)),
            }
            let (big, _) = glue_stats(f, g);
            if (big >= 2 && r.edges.len() >= 1) || big >= 3 {
                loc.nontrivial();
            }
            loc.outcome(&(r.nodes.len(), r.edges.len(), r.s.len(), r.t.len(), big));
        }
    }
    loc.sample(|| json!({"f": f, "g": g, "composable": expected.is_some()}));
}
