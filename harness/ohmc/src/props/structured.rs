//! Structured families of larger diagrams (up to ~10 nodes / 8 hyperedges), enumerated completely
//! for every size parameter up to a bound and in several numberings. They complement the
//! exhaustive small universes: thresholds such as "a frontier of at least 4 nodes", "5 operations
//! in one layer" or "a chain of 6" cannot occur among all diagrams with 3 nodes, but the full
//! universe with 6 nodes is out of reach.
use ohmc_core::plain::*;

type P = POpen<u8, u8>;

fn edge(label: u8, src: Vec<usize>, tgt: Vec<usize>) -> PEdge<u8> {
    PEdge { label, src, tgt }
}

/// the given diagram in four numberings: as is, nodes reversed, hyperedges reversed, both
pub fn numberings(f: &P) -> Vec<P> {
    let n = f.nodes.len();
    let m = f.edges.len();
    let idn: Vec<usize> = (0..n).collect();
    let revn: Vec<usize> = (0..n).rev().collect();
    let ide: Vec<usize> = (0..m).collect();
    let reve: Vec<usize> = (0..m).rev().collect();
    // an "interior" shuffle: keep first and last, swap neighbours in between
    let shuf = |k: usize| -> Vec<usize> {
        let mut v: Vec<usize> = (0..k).collect();
        let mut i = 1;
        while i + 1 < k.saturating_sub(1) {
            v.swap(i, i + 1);
            i += 2;
        }
        v
    };
    let mut out = vec![f.clone(), f.renumber(&revn, &ide), f.renumber(&idn, &reve), f.renumber(&revn, &reve), f.renumber(&shuf(n), &shuf(m))];
    out.dedup();
    out
}

/// the same diagram with `nl` node labels and `el` hyperedge labels spread over its nodes and hyperedges
/// (node v gets (3v + 1) mod nl, hyperedge e gets (5e + 2) mod el): many distinct labels in one diagram
pub fn relabelled(f: &P, nl: usize, el: usize) -> P {
    let mut g = f.clone();
    for (v, w) in g.nodes.iter_mut().enumerate() {
        *w = ((3 * v + 1) % nl) as u8;
    }
    for (e, ed) in g.edges.iter_mut().enumerate() {
        ed.label = ((5 * e + 2) % el) as u8;
    }
    g
}

/// `shapes_at` followed by the relabelled copy of every member (5 node labels, 4 hyperedge labels)
pub fn shapes_at_labelled(ks: &[usize], gaps: bool) -> Vec<(String, P)> {
    let base = shapes_at(ks, gaps);
    let mut out = base.clone();
    out.extend(base.into_iter().map(|(n, f)| (format!("{}/labelled", n), relabelled(&f, 5, 4))));
    out
}

/// shapes with arbitrary arities (label 0 everywhere): for layering, predicates, morphisms
pub fn shapes(kmax: usize) -> Vec<(String, P)> {
    let ks: Vec<usize> = (1..=kmax).collect();
    let mut out = shapes_at(&ks, true);
    out.extend(fan_multis());
    out
}

/// the shape families at the given size parameters only (`gaps`: also the O(k^2) skip(j,k) family); used with
/// large parameters (33 .. 513) for the slices that look for size thresholds
pub fn shapes_at(ks: &[usize], gaps: bool) -> Vec<(String, P)> {
    let mut out: Vec<(String, P)> = vec![];
    let mut add = |name: String, nodes: usize, edges: Vec<PEdge<u8>>, s: Vec<usize>, t: Vec<usize>, out: &mut Vec<(String, P)>| {
        let f = P { nodes: vec![0; nodes], edges, s, t };
        for (i, g) in numberings(&f).into_iter().enumerate() {
            out.push((format!("{}#{}", name, i), g));
        }
    };
    for &k in ks {
        // one hyperedge fanning out / in
        add(format!("fan-out({})", k), k + 1, vec![edge(0, vec![0], (1..=k).collect())], vec![0], (1..=k).collect(), &mut out);
        add(format!("fan-in({})", k), k + 1, vec![edge(0, (1..=k).collect(), vec![0])], (1..=k).collect(), vec![0], &mut out);
        // k parallel unary hyperedges
        add(format!("parallel({})", k), 2 * k, (0..k).map(|i| edge(0, vec![i], vec![k + i])).collect(), (0..k).collect(), (k..2 * k).collect(), &mut out);
        // chain of k unary hyperedges
        add(format!("chain({})", k), k + 1, (0..k).map(|i| edge(0, vec![i], vec![i + 1])).collect(), vec![0], vec![k], &mut out);
        // k hyperedges out of one node / into one node
        add(format!("star-out({})", k), k + 1, (1..=k).map(|i| edge(0, vec![0], vec![i])).collect(), vec![], vec![], &mut out);
        add(format!("star-in({})", k), k + 1, (1..=k).map(|i| edge(0, vec![i], vec![0])).collect(), vec![], vec![], &mut out);
        // directed cycle of k unary hyperedges, and the same with a tail and a downstream operation
        add(format!("cycle({})", k), k, (0..k).map(|i| edge(0, vec![i], vec![(i + 1) % k])).collect(), vec![], vec![], &mut out);
        let mut e: Vec<PEdge<u8>> = (0..k).map(|i| edge(0, vec![i], vec![(i + 1) % k])).collect();
        e.push(edge(0, vec![k], vec![0]));
        e.push(edge(0, vec![0], vec![k + 1]));
        add(format!("cycle-with-tail({})", k), k + 2, e, vec![k], vec![k + 1], &mut out);
        // a path of k operations into a cycle of c, and a cycle of c followed by a path of k (c = 1, 2, 3)
        for c in 1..=3usize {
            if k <= 4 {
                let mut e: Vec<PEdge<u8>> = (0..k).map(|i| edge(0, vec![i], vec![i + 1])).collect();
                e.extend((0..c).map(|j| edge(0, vec![k + j], vec![k + (j + 1) % c])));
                add(format!("path-into-cycle({},{})", k, c), k + c, e, vec![0], vec![], &mut out);
                let mut e: Vec<PEdge<u8>> = (0..c).map(|j| edge(0, vec![j], vec![(j + 1) % c])).collect();
                e.extend((0..k).map(|i| edge(0, vec![if i == 0 { 0 } else { c + i - 1 }], vec![c + i])));
                add(format!("cycle-into-path({},{})", c, k), c + k, e, vec![], vec![c + k - 1], &mut out);
            }
        }
        // transitive tournament on k + 1 nodes: a unary operation i -> j for every i < j (every node is discovered from
        // several different layers)
        if k <= 6 {
            let mut e = vec![];
            for i in 0..=k {
                for j in i + 1..=k {
                    e.push(edge(0, vec![i], vec![j]));
                }
            }
            add(format!("tournament({})", k + 1), k + 1, e, vec![0], vec![k], &mut out);
        }
        // diamond: a source operation feeding k parallel operations feeding a sink
        let mut e = vec![edge(0, vec![0], (1..=k).collect())];
        e.extend((1..=k).map(|i| edge(0, vec![i], vec![k + i])));
        e.push(edge(0, (k + 1..=2 * k).collect(), vec![2 * k + 1]));
        add(format!("diamond({})", k), 2 * k + 2, e, vec![0], vec![2 * k + 1], &mut out);
        // a node used k times by one operation (multiplicity k)
        add(format!("multiplicity({})", k), 2, vec![edge(0, vec![], vec![0; k]), edge(0, vec![0; k], vec![1])], vec![], vec![1], &mut out);
        // unbalanced depths: a chain of k and a direct wire into the same operation
        let mut e: Vec<PEdge<u8>> = (0..k).map(|i| edge(0, vec![i], vec![i + 1])).collect();
        e.push(edge(0, vec![0, k], vec![k + 1]));
        add(format!("unbalanced({})", k), k + 2, e, vec![0], vec![k + 1], &mut out);
        // an operation whose predecessors sit at depths j and k of a chain (every gap)
        for j in 1..(if gaps { k } else { 1 }) {
            let mut e: Vec<PEdge<u8>> = (0..k).map(|i| edge(0, vec![i], vec![i + 1])).collect();
            e.push(edge(0, vec![j, k], vec![k + 1]));
            add(format!("skip({},{})", j, k), k + 2, e, vec![0], vec![k + 1], &mut out);
        }
        // one node feeding the same operation through several other operations and directly: [p, q, p] reach lists
        let mut e = vec![edge(0, vec![0], vec![1, 2])];
        let mut acc = 2usize;
        let mut nn = 3usize;
        for _ in 0..k {
            e.push(edge(0, vec![1, acc], vec![nn]));
            acc = nn;
            nn += 1;
        }
        add(format!("shared-operand({})", k), nn, e, vec![0], vec![acc], &mut out);
    }
    out
}

fn fan_multis() -> Vec<(String, P)> {
    let mut out: Vec<(String, P)> = vec![];
    let mut add = |name: String, nodes: usize, edges: Vec<PEdge<u8>>, s: Vec<usize>, t: Vec<usize>, out: &mut Vec<(String, P)>| {
        let f = P { nodes: vec![0; nodes], edges, s, t };
        for (i, g) in numberings(&f).into_iter().enumerate() {
            out.push((format!("{}#{}", name, i), g));
        }
    };
    // one operation reaching the same node with multiplicity k and another node once (counting paths
    // with more than 16 / 32 entries in one sweep)
    for k in [3usize, 8, 15, 16, 17, 31, 32, 33] {
        let mut tgt = vec![1usize; k];
        tgt.push(2);
        add(format!("fan-multi({})", k), 3, vec![edge(0, vec![0], tgt.clone()), edge(0, vec![1], vec![]), edge(0, vec![2, 1], vec![])], vec![0], vec![], &mut out);
        let mut src = vec![2usize];
        src.extend(vec![1usize; k]);
        add(format!("fan-multi-in({})", k), 3, vec![edge(0, vec![], vec![1]), edge(0, vec![], vec![2]), edge(0, src, vec![0])], vec![], vec![0], &mut out);
    }
    out
}

/// Layered dependency graphs whose operations are NUMBERED OUT OF ORDER (a fixed list, not a sample of anything):
/// w x h grids in which node (r, c) feeds (r+1, c) and (r+1, c+1 mod w) through unary operations, and sparse DAGs on
/// m nodes whose arcs are drawn by a fixed linear congruential sequence; each with the operations listed as built,
/// backwards, and along i -> a*i + b (mod #operations) for several multipliers. Frontiers of three and more
/// operations then arrive in orders that are neither ascending nor descending.
pub fn shuffled_dags() -> Vec<(String, P)> {
    let mut out: Vec<(String, P)> = vec![];
    let gcd = |mut a: usize, mut b: usize| {
        while b != 0 {
            let t = a % b;
            a = b;
            b = t;
        }
        a
    };
    let mut push_all = |name: String, nodes: usize, edges: Vec<PEdge<u8>>, s: Vec<usize>, t: Vec<usize>, out: &mut Vec<(String, P)>| {
        let m = edges.len();
        let f = P { nodes: vec![0; nodes], edges, s, t };
        let idn: Vec<usize> = (0..nodes).collect();
        out.push((format!("{}/as-built", name), f.clone()));
        if m >= 2 {
            out.push((format!("{}/backwards", name), f.renumber(&idn, &(0..m).rev().collect::<Vec<_>>())));
            for a in [3usize, 5, 7, 11, 13] {
                if gcd(a, m) == 1 {
                    for b in [0usize, 1] {
                        let perm: Vec<usize> = (0..m).map(|i| (a * i + b) % m).collect();
                        out.push((format!("{}/times-{}-plus-{}", name, a, b), f.renumber(&idn, &perm)));
                    }
                }
            }
        }
    };
    for (w, h) in [(3usize, 3usize), (3, 5), (4, 4), (5, 3), (2, 7)] {
        let id = |r: usize, c: usize| r * w + c;
        let mut e = vec![];
        for r in 0..h - 1 {
            for c in 0..w {
                e.push(edge(0, vec![id(r, c)], vec![id(r + 1, c)]));
                e.push(edge(0, vec![id(r, c)], vec![id(r + 1, (c + 1) % w)]));
            }
        }
        push_all(format!("grid({}x{})", w, h), w * h, e, (0..w).collect(), (0..w).map(|c| id(h - 1, c)).collect(), &mut out);
    }
    for m in [8usize, 14, 20] {
        for seed in 0..6u64 {
            // arcs i -> j (i < j in the hidden topological order), about 1.3 per node, from a fixed LCG
            let mut x = 0x9E37_79B9_7F4A_7C15u64.wrapping_mul(seed + 1) ^ (m as u64);
            let mut next = || {
                x = x.wrapping_mul(6364136223846793005).wrapping_add(1442695040888963407);
                (x >> 33) as usize
            };
            let mut e = vec![];
            for _ in 0..(m * 13 / 10) {
                let i = next() % (m - 1);
                let j = i + 1 + next() % (m - 1 - i);
                e.push(edge(0, vec![i], vec![j]));
            }
            push_all(format!("lcg-dag({},{})", m, seed), m, e, vec![], vec![], &mut out);
        }
    }
    out
}

/// The i-th member of a complete mini-universe on `m` operations: operations 0 and 1 are producers, three consumers
/// with pairwise different indices x, y (both reading producer 0) and z (reading producer 1), a join reading all three
/// consumers at index j, every other operation idle (0 -> 0). All (x, y, z, j) with distinct indices in 2..m. The second
/// Kahn level is then discovered in the order x, y, z for every relative order and spacing of three sparse indices.
pub fn sparse_frontier_count(m: usize) -> u64 {
    let k = (m - 2) as u64;
    k * (k - 1) * (k - 2) * (k - 3)
}
pub fn sparse_frontier(m: usize, i: u64) -> P {
    let k = (m - 2) as u64;
    // unrank four distinct indices out of 2..m
    let mut free: Vec<usize> = (2..m).collect();
    let mut r = i;
    let mut pick = |base: u64| {
        let p = (r % base) as usize;
        r /= base;
        free.remove(p)
    };
    let (x, y, z, j) = (pick(k), pick(k - 1), pick(k - 2), pick(k - 3));
    // nodes: 0 = output of producer 0, 1 = output of producer 1, 2..5 = outputs of x, y, z; 5 = output of the join
    let mut edges: Vec<PEdge<u8>> = (0..m).map(|_| edge(0, vec![], vec![])).collect();
    edges[0] = edge(0, vec![], vec![0]);
    edges[1] = edge(0, vec![], vec![1]);
    edges[x] = edge(0, vec![0], vec![2]);
    edges[y] = edge(0, vec![0], vec![3]);
    edges[z] = edge(0, vec![1], vec![4]);
    edges[j] = edge(0, vec![2, 3, 4], vec![5]);
    P { nodes: vec![0; 6], edges, s: vec![], t: vec![5] }
}

/// diagrams that are monogamous except (possibly) at one node whose in- or out-degree is k, reached through one wide
/// hyperedge (multiplicity k) or through k hyperedges; with that node on or off the interface. For the degree and
/// monogamy predicates (every other node is fine, so the answer hinges on the one node).
pub fn degree_probes(kmax: usize) -> Vec<(String, P)> {
    let mut out: Vec<(String, P)> = vec![];
    let mut add = |name: String, nodes: usize, edges: Vec<PEdge<u8>>, s: Vec<usize>, t: Vec<usize>, out: &mut Vec<(String, P)>| {
        let f = P { nodes: vec![0; nodes], edges, s, t };
        for (i, g) in numberings(&f).into_iter().enumerate() {
            out.push((format!("{}#{}", name, i), g));
        }
    };
    for k in 1..=kmax {
        for on_iface in [false, true] {
            // one hyperedge 0 -> [1; k]: node 1 has in-degree k
            add(format!("wide-target({},{})", k, on_iface), 2, vec![edge(0, vec![0], vec![1; k])], vec![0], if on_iface { vec![1] } else { vec![] }, &mut out);
            // one hyperedge [1; k] -> 0: node 1 has out-degree k
            add(format!("wide-source({},{})", k, on_iface), 2, vec![edge(0, vec![1; k], vec![0])], if on_iface { vec![1] } else { vec![] }, vec![0], &mut out);
            // k hyperedges i -> z
            add(format!("many-into-one({},{})", k, on_iface), k + 1, (0..k).map(|i| edge(0, vec![i], vec![k])).collect(), (0..k).collect(), if on_iface { vec![k] } else { vec![] }, &mut out);
            // k hyperedges z -> i
            add(format!("one-into-many({},{})", k, on_iface), k + 1, (0..k).map(|i| edge(0, vec![k], vec![i])).collect(), if on_iface { vec![k] } else { vec![] }, (0..k).collect(), &mut out);
            // in-degree k-1 and also an input; out-degree k-1 and also an output
            if k >= 2 {
                add(format!("wide-target-and-input({},{})", k, on_iface), 2, vec![edge(0, vec![0], vec![1; k - 1])], vec![0, 1], if on_iface { vec![1] } else { vec![] }, &mut out);
                add(format!("wide-source-and-output({},{})", k, on_iface), 2, vec![edge(0, vec![1; k - 1], vec![0])], if on_iface { vec![1] } else { vec![] }, vec![0, 1], &mut out);
            }
        }
    }
    out
}

/// programs over the fixed-arity test signature of C16 (sub 2, neg 3, copy 4, const 6, discard 7, add 0)
pub fn programs(kmax: usize) -> Vec<(String, P)> {
    let ks: Vec<usize> = (1..=kmax).collect();
    programs_at(&ks, true)
}

/// the program families at the given size parameters only (`gaps`: also skip-sub(j,k))
pub fn programs_at(ks: &[usize], gaps: bool) -> Vec<(String, P)> {
    let mut out: Vec<(String, P)> = vec![];
    let mut add = |name: String, nodes: usize, edges: Vec<PEdge<u8>>, s: Vec<usize>, t: Vec<usize>, out: &mut Vec<(String, P)>| {
        let f = P { nodes: vec![0; nodes], edges, s, t };
        for (i, g) in numberings(&f).into_iter().enumerate() {
            out.push((format!("{}#{}", name, i), g));
        }
    };
    for &k in ks {
        // k parallel negations (one layer with k operations)
        add(format!("parallel-neg({})", k), 2 * k, (0..k).map(|i| edge(3, vec![i], vec![k + i])).collect(), (0..k).collect(), (k..2 * k).collect(), &mut out);
        // one layer of k operations with different labels and arities (neg, copy, discard, const, sub in turn): a
        // backend that lists the layer in another order must still pair every operation with its own label
        {
            let mut e: Vec<PEdge<u8>> = vec![];
            let (mut s, mut t) = (vec![], vec![]);
            let mut nn = 0usize;
            for i in 0..k {
                match i % 5 {
                    0 => {
                        e.push(edge(3, vec![nn], vec![nn + 1]));
                        s.push(nn);
                        t.push(nn + 1);
                        nn += 2;
                    }
                    1 => {
                        e.push(edge(4, vec![nn], vec![nn + 1, nn + 2]));
                        s.push(nn);
                        t.push(nn + 2);
                        t.push(nn + 1);
                        nn += 3;
                    }
                    2 => {
                        e.push(edge(7, vec![nn], vec![]));
                        s.push(nn);
                        nn += 1;
                    }
                    3 => {
                        e.push(edge(6, vec![], vec![nn]));
                        t.push(nn);
                        nn += 1;
                    }
                    _ => {
                        e.push(edge(2, vec![nn, nn + 1], vec![nn + 2]));
                        s.push(nn + 1);
                        s.push(nn);
                        t.push(nn + 2);
                        nn += 3;
                    }
                }
            }
            add(format!("mixed-layer({})", k), nn, e, s, t, &mut out);
        }
        // a left fold with sub over k inputs held by the first k nodes, the source interface listing them in every
        // order (k <= 4) or in a few orders (identity, reversed, rotated, one interior swap, ends fixed and the interior
        // reversed): the i-th input value has to reach the i-th LISTED node
        if k >= 2 {
            let mut e: Vec<PEdge<u8>> = vec![];
            let mut acc = 0usize;
            let mut nn = k;
            for i in 1..k {
                e.push(edge(2, vec![acc, i], vec![nn]));
                acc = nn;
                nn += 1;
            }
            let orders: Vec<Vec<usize>> = if k <= 4 {
                ohmc_core::iso::all_permutations(k)
            } else {
                let id: Vec<usize> = (0..k).collect();
                let mut swap = id.clone();
                swap.swap(1, 2);
                let mut inner: Vec<usize> = id.clone();
                inner[1..k - 1].reverse();
                vec![id.clone(), id.iter().rev().cloned().collect(), (0..k).map(|i| (i + 1) % k).collect(), swap, inner]
            };
            for (j, s) in orders.into_iter().enumerate() {
                let f = P { nodes: vec![0; nn], edges: e.clone(), s, t: vec![acc] };
                out.push((format!("sub-fold-inputs-in-order({},{})", k, j), f.clone()));
                // and with the hyperedges listed backwards
                let m = f.edges.len();
                out.push((format!("sub-fold-inputs-in-order({},{})/edges-reversed", k, j), f.renumber(&(0..nn).collect::<Vec<_>>(), &(0..m).rev().collect::<Vec<_>>())));
            }
        }
        // alternating neg / copy+discard in one layer
        // chain of k negations
        add(format!("chain-neg({})", k), k + 1, (0..k).map(|i| edge(3, vec![i], vec![i + 1])).collect(), vec![0], vec![k], &mut out);
        // k constants subtracted pairwise in a comb: ((c - x) - x) ...
        let mut e: Vec<PEdge<u8>> = vec![];
        // copies of the input: a chain of k copy operations yields k+1 wires
        // wires: input 0; copy i: src c_i -> (a_i, c_{i+1})
        let mut cur = 0usize;
        let mut next = 1usize;
        let mut leaves = vec![];
        for _ in 0..k {
            e.push(edge(4, vec![cur], vec![next, next + 1]));
            leaves.push(next);
            cur = next + 1;
            next += 2;
        }
        leaves.push(cur);
        // fold the leaves with sub from the left
        let mut acc = leaves[0];
        for &l in &leaves[1..] {
            e.push(edge(2, vec![acc, l], vec![next]));
            acc = next;
            next += 1;
        }
        add(format!("copy-chain-then-sub-fold({})", k), next, e, vec![0], vec![acc], &mut out);
        // operations whose inputs arrive from different depths: sub(x, neg^k(x))
        let mut e = vec![edge(4, vec![0], vec![1, 2])];
        let mut w = 2usize;
        let mut nn = 3usize;
        for _ in 0..k {
            e.push(edge(3, vec![w], vec![nn]));
            w = nn;
            nn += 1;
        }
        e.push(edge(2, vec![1, w], vec![nn]));
        add(format!("mixed-depth({})", k), nn + 1, e, vec![0], vec![nn], &mut out);
        // more operations than nodes: k constants, k negations of them (also outputs) and k discards reading the negated
        // values, listed constants - discards - negations, so that operations numbered beyond the node count have
        // dependencies
        {
            let mut e: Vec<PEdge<u8>> = (0..k).map(|i| edge(6, vec![], vec![i])).collect();
            e.extend((0..k).map(|i| edge(7, vec![k + i], vec![])));
            e.extend((0..k).map(|i| edge(3, vec![i], vec![k + i])));
            add(format!("const-sink-neg({})", k), 2 * k, e, vec![], (k..2 * k).collect(), &mut out);
        }
        // k constants feeding k discards and k outputs
        let mut e: Vec<PEdge<u8>> = (0..k).map(|i| edge(6, vec![], vec![i])).collect();
        e.extend((0..k).map(|i| edge(3, vec![i], vec![k + i])));
        add(format!("const-neg({})", k), 2 * k, e, vec![], (k..2 * k).collect(), &mut out);
        // sub(x_j, x_k) on a chain of k negations: predecessors at depths j and k
        for j in 1..(if gaps { k } else { 1 }) {
            let mut e: Vec<PEdge<u8>> = (0..k).map(|i| edge(3, vec![i], vec![i + 1])).collect();
            e.push(edge(2, vec![j, k], vec![k + 1]));
            add(format!("skip-sub({},{})", j, k), k + 2, e, vec![0], vec![k + 1], &mut out);
        }
        // x -> copy -> (a, b); c0 = sub(a, b); c_{i+1} = add(a, c_i): the node a is read k+1 times
        let mut e = vec![edge(4, vec![0], vec![1, 2]), edge(2, vec![1, 2], vec![3])];
        let mut acc = 3usize;
        let mut nn = 4usize;
        for _ in 0..k {
            e.push(edge(0, vec![1, acc], vec![nn]));
            acc = nn;
            nn += 1;
        }
        add(format!("shared-operand({})", k), nn, e, vec![0], vec![acc], &mut out);
        // a cycle of k negations (must be refused)
        add(format!("neg-cycle({})", k), k.max(1), (0..k).map(|i| edge(3, vec![i], vec![(i + 1) % k])).collect(), vec![], vec![0], &mut out);
    }
    out
}

/// Pairs (f, g) of edge-free diagrams (plus a variant carrying one hyperedge each) whose common
/// boundary identifies many nodes into ONE class through a long or deep pattern: zig-zag chains
/// f0-g0-f1-g1-..., and "binomial" wire orders that make a union-by-rank structure grow a tree of
/// depth d. Each in several wire orders. Sizes up to 2^6 nodes.
pub fn gluing_pairs(kmax: usize, dmax: usize) -> Vec<(String, P, P)> {
    let mut out = vec![];
    // a boundary of k distinguishable wires (f feeds wire i from an operation labelled i, g consumes wire j into an
    // operation labelled j), listed by f in order p and by g in order q, for every pair of orders (k = 3, 4) or for a
    // few orders (k = 5, 6: identity, reversed, rotated, interior swap, interior reversed with the ends fixed)
    for k in 3..=6usize.min(kmax.max(3)) {
        let orders: Vec<Vec<usize>> = if k <= 4 {
            ohmc_core::iso::all_permutations(k)
        } else {
            let id: Vec<usize> = (0..k).collect();
            let mut swap = id.clone();
            swap.swap(1, 2);
            let mut inner = id.clone();
            inner[1..k - 1].reverse();
            vec![id.clone(), id.iter().rev().cloned().collect(), (0..k).map(|i| (i + 1) % k).collect(), swap, inner]
        };
        for (pi, p) in orders.iter().enumerate() {
            for (qi, q) in orders.iter().enumerate() {
                // f: nodes 0..k are inputs, k..2k the boundary wires; operation i: [i] -> [k + i]
                let f = P { nodes: vec![0; 2 * k], edges: (0..k).map(|i| edge(i as u8, vec![i], vec![k + i])).collect(), s: (0..k).collect(), t: p.iter().map(|&i| k + i).collect() };
                // g: nodes 0..k the boundary wires, k..2k outputs; operation j: [j] -> [k + j]
                let g = P { nodes: vec![0; 2 * k], edges: (0..k).map(|j| edge((10 + j) as u8, vec![j], vec![k + j])).collect(), s: q.clone(), t: (k..2 * k).collect() };
                out.push((format!("boundary-orders({},{},{})", k, pi, qi), f, g));
            }
        }
    }
    let mut add = |name: String, nf: usize, ng: usize, wires: Vec<(usize, usize)>, out: &mut Vec<(String, P, P)>| {
        let orders: Vec<(&str, Vec<(usize, usize)>)> = vec![
            ("asc", wires.clone()),
            ("desc", wires.iter().rev().cloned().collect()),
            ("evens-odds", wires.iter().step_by(2).chain(wires.iter().skip(1).step_by(2)).cloned().collect()),
        ];
        for (on, w) in orders {
            for with_edges in [false, true] {
                let (ft, gs): (Vec<usize>, Vec<usize>) = w.iter().cloned().unzip();
                let mut f = P { nodes: vec![0; nf], edges: vec![], s: (0..nf).collect(), t: ft };
                let mut g = P { nodes: vec![0; ng], edges: vec![], s: gs, t: (0..ng).rev().collect() };
                if with_edges {
                    f.edges.push(edge(1, vec![0], vec![nf - 1]));
                    g.edges.push(edge(2, vec![ng - 1, 0], vec![]));
                }
                out.push((format!("{}/{}{}", name, on, if with_edges { "+edges" } else { "" }), f, g));
            }
        }
    };
    // every leg 4 -> 4 (all 256 tables: permutations, legs that pass any checksum of a permutation, constant legs) as the
    // boundary leg of a discrete operand on 4 nodes, against 4 distinguishable wires on the other side
    for (ti, table) in ohmc_core::uni::tables(4, 4).into_iter().enumerate() {
        let wires_f = P { nodes: vec![0; 8], edges: (0..4).map(|i| edge(i as u8, vec![i], vec![4 + i])).collect(), s: (0..4).collect(), t: (4..8).collect() };
        let disc_g = P { nodes: vec![0; 4], edges: vec![], s: table.clone(), t: (0..4).collect() };
        out.push((format!("boundary-leg-table(right,{})", ti), wires_f, disc_g));
        let disc_f = P { nodes: vec![0; 4], edges: vec![], s: (0..4).collect(), t: table.clone() };
        let wires_g = P { nodes: vec![0; 8], edges: (0..4).map(|j| edge((10 + j) as u8, vec![j], vec![4 + j])).collect(), s: (0..4).collect(), t: (4..8).collect() };
        out.push((format!("boundary-leg-table(left,{})", ti), disc_f, wires_g));
        // and between two spiders (no hyperedges at all)
        let id_f = P { nodes: vec![0; 4], edges: vec![], s: (0..4).collect(), t: (0..4).rev().collect() };
        out.push((format!("boundary-leg-table(spiders,{})", ti), id_f, P { nodes: vec![0; 4], edges: vec![], s: table.clone(), t: (0..4).collect() }));
    }
    for k in 1..=kmax {
        // chain f0-g0-f1-g1-...-f(k-1)-g(k-1)
        let mut w = vec![];
        for i in 0..k {
            w.push((i, i));
            if i + 1 < k {
                w.push((i + 1, i));
            }
        }
        add(format!("zigzag({})", k), k, k, w, &mut out);
        // two separate chains (two classes) that must NOT be merged
        if k >= 2 {
            let mut w = vec![];
            for i in 0..k {
                w.push((i, i));
                if i + 2 < k {
                    w.push((i + 2, i));
                }
            }
            add(format!("two-zigzags({})", k), k, k, w, &mut out);
        }
    }
    for d in 1..=dmax {
        // level 1: (f_i, g_i); level L >= 2: (f_i, g_{i + 2^(L-2)}) for i a multiple of 2^(L-1)
        let half = 1usize << (d - 1);
        let mut w: Vec<(usize, usize)> = (0..half).map(|i| (i, i)).collect();
        let mut l = 2;
        while (1usize << (l - 1)) <= half {
            let step = 1usize << (l - 1);
            let mut i = 0;
            while i + (step / 2) < half {
                w.push((i, i + step / 2));
                i += step;
            }
            l += 1;
        }
        let mut f = vec![];
        // only the ascending order grows the deep tree; keep the other orders as controls
        add(format!("binomial({})", d), half, half, w.clone(), &mut f);
        out.extend(f);
        // two deep trees tied together through the DEEPEST node of the first one (a union whose argument is
        // far from its root), in both roles
        for d2 in 1..=d {
            let h2 = 1usize << (d2 - 1);
            let mut w2 = w.clone();
            // second block on fresh nodes
            let mut blk: Vec<(usize, usize)> = (0..h2).map(|i| (half + i, half + i)).collect();
            let mut l = 2;
            while (1usize << (l - 1)) <= h2 {
                let step = 1usize << (l - 1);
                let mut i = 0;
                while i + (step / 2) < h2 {
                    blk.push((half + i, half + i + step / 2));
                    i += step;
                }
                l += 1;
            }
            w2.extend(blk);
            // the tie: root side of the second block with the deepest node of the first block
            w2.push((half, half - 1));
            let (ft, gs): (Vec<usize>, Vec<usize>) = w2.iter().cloned().unzip();
            let n = half + h2;
            let fdiag = P { nodes: vec![0; n], edges: vec![edge(1, vec![0], vec![n - 1])], s: (0..n).collect(), t: ft.clone() };
            let gdiag = P { nodes: vec![0; n], edges: vec![], s: gs.clone(), t: (0..n).collect() };
            out.push((format!("tied-binomials({},{})", d, d2), fdiag.clone(), gdiag.clone()));
            // roles swapped: the g side supplies the roots
            let f2 = P { nodes: vec![0; n], edges: vec![], s: (0..n).collect(), t: gs };
            let g2 = P { nodes: vec![0; n], edges: vec![edge(1, vec![0], vec![n - 1])], s: ft, t: (0..n).collect() };
            out.push((format!("tied-binomials-swapped({},{})", d, d2), f2, g2));
        }
    }
    out
}
