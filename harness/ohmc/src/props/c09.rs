//! C09 — quotienting merges exactly the unified nodes, atomically.
use crate::props::laxbfs::*;
use ohmc_core::explore::*;
use ohmc_core::plain::*;
use serde_json::json;

type L = PLax<u8, u8>;

fn quot_bounds(hyper_only: bool) -> Bounds {
    Bounds { nodes: 99, edges: 99, pairs: 99, iface: 99, arity_s: 99, arity_t: 99, labels: 2, del_ids: 0, hyper_only, alphabet: Alphabet::Quotient }
}

/// quotient once, then again, on the open hypergraph and on the bare hypergraph
pub fn check_input(p: &L, loc: &mut Local) {
    for hyper_only in [false, true] {
        let b = quot_bounds(hyper_only);
        let mut q = p.clone();
        if hyper_only {
            q.open.s.clear();
            q.open.t.clear();
        }
        loc.trans(1);
        let o = checked_step(&b, &q, &Act::Quotient);
        if let Some((k, why)) = o.violation {
            loc.violation(&format!("{}{}", if hyper_only { "hypergraph-" } else { "" }, k), json!({"diagram": q, "why": why, "on": if hyper_only { "lax::Hypergraph" } else { "lax::OpenHypergraph" }}));
            continue;
        }
        if let Some(after) = o.next {
            if p.label_consistent() {
                // quotienting again changes nothing
                loc.trans(1);
                let o2 = checked_step(&b, &after, &Act::Quotient);
                if let Some((k, why)) = o2.violation {
                    loc.violation(&format!("second-{}", k), json!({"diagram": q, "after_first_quotient": after, "why": why}));
                } else if let Some(after2) = o2.next {
                    if after2 != after {
                        // allowed only up to a bijective renumbering; check_quotient has verified that the
                        // diagram is `after` pushed through a bijection
                        loc.add("second-quotient-renumbered", 1);
                    }
                }
            }
        }
    }
    // the deprecated alias must be the same operation
    {
        use crate::laxconv::*;
        let (mut a, mut b) = (build_lax(p), build_lax(p));
        #[allow(deprecated)]
        let ra = catch(|| a.quotient_witness().map(|q| q.table.0).map_err(|q| q.table.0));
        let rb = catch(|| b.quotient().map(|q| q.table.0).map_err(|q| q.table.0));
        loc.trans(1);
        if ra != rb || a != b {
            loc.violation("quotient_witness-differs-from-quotient", json!({"diagram": p, "alias": format!("{:?}", ra), "quotient": format!("{:?}", rb)}));
        }
        if a.hypergraph.is_strict() != a.hypergraph.quotient.0.is_empty() {
            loc.violation("is_strict-wrong", json!({"diagram": p}));
        }
    }
    let (_, k) = classes(p.open.nodes.len(), &p.quot);
    if !p.quot.is_empty() && (k < p.open.nodes.len()) {
        loc.nontrivial();
    }
    loc.outcome(&(p.label_consistent(), p.open.nodes.len(), k, p.open.edges.len(), p.quot.len()));
    loc.sample(|| json!({"diagram": p, "label_consistent": p.label_consistent()}));
}

pub fn run_bfs(ctx: &mut Ctx, name: &str, b: Bounds, init: Vec<L>, depth: usize, max_states: u64, with_serde: bool, double_check: bool) {
    let deadline = ctx.deadline;
    ctx.run_seq(name, |loc| {
        let sc: &(dyn Fn(&L) -> Option<(String, String)> + Sync) = if with_serde { &serde_check } else { &|_| None };
        let r = bfs(&b, init.clone(), depth, max_states, deadline, false, sc);
        loc.cases = r.states;
        loc.transitions = r.transitions;
        loc.nontrivial = r.states.saturating_sub(1);
        loc.add("bfs-depth", r.depth as u64);
        loc.add("bfs-reached-fixpoint", r.fixpoint as u64);
        for (d, c) in r.per_depth.iter().enumerate() {
            loc.outcome(&(d, c));
        }
        for v in &r.violations {
            let kind = v["kind"].as_str().unwrap_or("history").to_string();
            loc.violation(&format!("history:{}", kind), v.clone());
        }
        loc.sample(|| json!({"bfs": name, "states": r.states, "transitions": r.transitions, "depth": r.depth, "new_states_per_depth": r.per_depth}));
        if double_check && r.complete {
            // determinism / ownership of nondeterminism: a single-threaded run must visit the same number of states
            let r2 = bfs(&b, init.clone(), depth, max_states, deadline, true, sc);
            if r2.complete && (r2.states != r.states || r2.transitions != r.transitions) {
                panic!("BFS is not deterministic: {} vs {} states", r.states, r2.states);
            }
            loc.add("bfs-double-checked", 1);
        }
        r.complete
    });
}

pub fn run_live(ctx: &mut Ctx, name: &str, b: Bounds, depth: usize) {
    ctx.run_seq(name, |loc| {
        let mut viol = vec![];
        let mut counts = (0u64, 0u64);
        live_dfs(&b, depth, &mut viol, &mut counts);
        loc.traces = counts.0;
        loc.transitions = counts.1;
        loc.add("live-histories", counts.0);
        for v in &viol {
            let kind = v["kind"].as_str().unwrap_or("live").to_string();
            loc.violation(&kind, v.clone());
        }
        loc.sample(|| json!({"live-dfs": name, "histories": counts.0, "calls": counts.1, "depth": depth}));
        true
    });
}

/// One checked transition for every action from an arbitrary state (every lax diagram is reachable by
/// some history, so this is "starting from any diagram reached earlier" at sizes the BFS cannot reach).
pub fn check_one_step(b: &Bounds, s: &L, loc: &mut Local) {
    let mut sd = s.clone();
    if b.hyper_only {
        sd.open.s.clear();
        sd.open.t.clear();
    }
    for a in actions(b, &sd) {
        loc.trans(1);
        let o = checked_step(b, &sd, &a);
        if let Some((k, why)) = o.violation {
            loc.violation(&format!("step:{}", k), json!({"state": sd, "action": a, "why": why, "on": if b.hyper_only { "lax::Hypergraph" } else { "lax::OpenHypergraph" }}));
        }
    }
    // the deprecated alias delete_edge is the same operation as delete_edges
    {
        use crate::laxconv::*;
        let m = sd.open.edges.len();
        for ids in ohmc_core::uni::lists(m, 2) {
            let (mut a, mut b) = (build_lax_hyper(&sd), build_lax_hyper(&sd));
            #[allow(deprecated)]
            let ra = catch(|| a.delete_edge(&eid(&ids)));
            let rb = catch(|| b.delete_edges(&eid(&ids)));
            loc.trans(1);
            if ra.is_ok() != rb.is_ok() || a != b {
                loc.violation("delete_edge-differs-from-delete_edges", json!({"state": sd, "ids": ids}));
            }
        }
    }
    // lax::Hypergraph::delete_nodes is delete_nodes_witness without the witness
    {
        use crate::laxconv::*;
        let n = sd.open.nodes.len();
        for ids in ohmc_core::uni::lists(n, 2) {
            let (mut a, mut b) = (build_lax_hyper(&sd), build_lax_hyper(&sd));
            let ra = catch(|| a.delete_nodes(&nid(&ids)));
            let rb = catch(|| b.delete_nodes_witness(&nid(&ids)));
            loc.trans(1);
            if ra.is_ok() != rb.is_ok() || a != b {
                loc.violation("delete_nodes-differs-from-delete_nodes_witness", json!({"state": sd, "ids": ids}));
            }
        }
    }
    if sd.open.edges.len() >= 2 || sd.open.edges.iter().any(|e| e.src.len() >= 3) {
        loc.nontrivial();
    }
    loc.outcome(&(sd.open.nodes.len(), sd.open.edges.len(), sd.quot.len()));
    loc.sample(|| json!({"state": sd}));
}


/// A label whose equality is lawful but coarser than identity: two labels are equal when their keys are, the tag is
/// carried along. "A failed quotient leaves the diagram exactly as it was" then has to hold for the tags too, which a
/// comparison through `==` cannot see.
#[derive(Clone, Debug, serde::Serialize)]
pub struct Tagged {
    pub key: u8,
    pub tag: u8,
}
impl PartialEq for Tagged {
    fn eq(&self, o: &Self) -> bool {
        self.key == o.key
    }
}
impl Eq for Tagged {}
impl PartialOrd for Tagged {
    fn partial_cmp(&self, o: &Self) -> Option<std::cmp::Ordering> {
        Some(self.cmp(o))
    }
}
impl Ord for Tagged {
    fn cmp(&self, o: &Self) -> std::cmp::Ordering {
        self.key.cmp(&o.key)
    }
}
impl std::hash::Hash for Tagged {
    fn hash<H: std::hash::Hasher>(&self, h: &mut H) {
        self.key.hash(h)
    }
}

/// quotient on the same diagram with tagged labels (tag = node index): on failure every tag must be where it was; on
/// success every new node carries a label of its fibre (key and tag of one of its members)
pub fn check_tagged(p: &L, loc: &mut Local) {
    use crate::laxconv::*;
    let tp: PLax<Tagged, u8> = PLax { open: POpen { nodes: p.open.nodes.iter().enumerate().map(|(i, &k)| Tagged { key: k, tag: i as u8 }).collect(), edges: p.open.edges.clone(), s: p.open.s.clone(), t: p.open.t.clone() }, quot: p.quot.clone() };
    let mut l = build_lax(&tp);
    let before: Vec<(u8, u8)> = l.hypergraph.nodes.iter().map(|t| (t.key, t.tag)).collect();
    loc.trans(1);
    let r = catch(|| l.quotient().map(|q| q.table.0).map_err(|q| q.table.0));
    let after: Vec<(u8, u8)> = l.hypergraph.nodes.iter().map(|t| (t.key, t.tag)).collect();
    match r {
        Err(msg) => loc.violation("tagged-quotient:panic", json!({"diagram": p, "panic": msg})),
        Ok(Err(_)) => {
            if p.label_consistent() {
                loc.violation("tagged-quotient:failed-on-consistent-labels", json!({"diagram": p}));
            } else if after != before {
                loc.violation("failed-quotient-changed-a-label-value", json!({"diagram": p, "labels_with_tags_before": before, "after": after}));
            }
            loc.nontrivial();
        }
        Ok(Ok(q)) => {
            if !p.label_consistent() {
                loc.violation("tagged-quotient:succeeded-on-conflicting-labels", json!({"diagram": p}));
            } else if q.len() != before.len() || after.iter().enumerate().any(|(c, lab)| !(0..q.len()).any(|v| q[v] == c && before[v] == *lab)) {
                loc.violation("quotient-label-is-not-a-label-of-its-fibre", json!({"diagram": p, "q": q, "labels_with_tags_before": before, "after": after}));
            }
        }
    }
    loc.outcome(&("tagged", p.label_consistent(), p.quot.len()));
}
