//! C02 — tensor product is strict juxtaposition (strict and lax), associative and unital on the nose.
use crate::laxconv::*;
use crate::ops::*;
use ohmc_core::explore::*;
use ohmc_core::plain::*;
use open_hypergraphs::category::*;
use serde_json::json;

type P = POpen<u8, u8>;
type L = PLax<u8, u8>;

fn fail(loc: &mut Local, what: &str, e: &Fail, ctx: serde_json::Value) {
    loc.violation(&format!("{}:{}", what, e.kind()), json!({"what": what, "failure": e.msg(), "case": ctx}));
}

pub fn check_pair<B: StrictOps>(f: &P, g: &P, loc: &mut Local) {
    let expected = f.tensor(g);
    for (name, got) in [("tensor", B::tensor(f, g)), ("bitor", B::tensor_bitor(f, g))] {
        loc.trans(1);
        match got {
            Err(e) => fail(loc, name, &e, json!({"f": f, "g": g})),
            Ok(r) => {
                if r != expected {
                    loc.violation("not-the-juxtaposition", json!({"op": name, "f": f, "g": g, "expected": expected, "got": r, "backend": B::NAME}));
                }
            }
        }
    }
    if !f.nodes.is_empty() && !g.nodes.is_empty() && (g.edges.len() + g.s.len() + g.t.len() > 0) {
        loc.nontrivial();
    }
    loc.outcome(&(expected.nodes.len(), expected.edges.len(), expected.s.len(), expected.t.len()));
    loc.sample(|| json!({"f": f, "g": g}));
}

pub fn check_unit<B: StrictOps>(f: &P, loc: &mut Local) {
    let unit: Vec<u8> = match B::unit::<u8, u8>() {
        Ok(u) => u,
        Err(e) => return fail(loc, "unit", &e, json!({})),
    };
    if !unit.is_empty() {
        loc.violation("unit-object-not-empty", json!({"unit": unit}));
    }
    let e = match B::identity::<u8, u8>(&unit) {
        Ok(e) => e,
        Err(e) => return fail(loc, "identity(unit)", &e, json!({})),
    };
    for (name, got) in [("f|unit", B::tensor(f, &e)), ("unit|f", B::tensor(&e, f))] {
        loc.trans(1);
        match got {
            Err(er) => fail(loc, name, &er, json!({"f": f})),
            Ok(r) => {
                if r != *f {
                    loc.violation("unit-law-not-on-the-nose", json!({"law": name, "f": f, "got": r}));
                }
            }
        }
    }
    loc.nontrivial();
    loc.outcome(&(f.nodes.len(), f.edges.len()));
}

pub fn check_assoc<B: StrictOps>(f: &P, g: &P, h: &P, loc: &mut Local) {
    let l = B::tensor(f, g).and_then(|fg| B::tensor(&fg, h));
    let r = B::tensor(g, h).and_then(|gh| B::tensor(f, &gh));
    loc.trans(4);
    match (l, r) {
        (Ok(l), Ok(r)) => {
            if l != r {
                loc.violation("tensor-not-associative-on-the-nose", json!({"f": f, "g": g, "h": h, "left": l, "right": r}));
            }
            loc.outcome(&(l.nodes.len(), l.edges.len()));
        }
        (Err(e), _) | (_, Err(e)) => fail(loc, "assoc", &e, json!({"f": f, "g": g, "h": h})),
    }
    if !f.nodes.is_empty() && !g.nodes.is_empty() && !h.nodes.is_empty() {
        loc.nontrivial();
    }
}

// ---- lax --------------------------------------------------------------------------------------

fn lax_tensor(f: &L, g: &L, op: u8) -> Res<L> {
    let (a, b) = (build_lax(f), build_lax(g));
    let r = catch(|| match op {
        0 => a.tensor(&b),
        1 => Monoidal::tensor(&a, &b),
        _ => &a | &b,
    });
    match r {
        Err(p) => Err(Fail::Panic(p)),
        Ok(x) => decode_lax(&x).map_err(Fail::Malformed),
    }
}

pub fn check_lax_pair(f: &L, g: &L, loc: &mut Local) {
    let expected = f.tensor(g);
    for op in 0..3u8 {
        loc.trans(1);
        match lax_tensor(f, g, op) {
            Err(e) => fail(loc, "lax-tensor", &e, json!({"f": f, "g": g, "op": op})),
            Ok(r) => {
                if r != expected {
                    loc.violation("lax-not-the-juxtaposition", json!({"op": op, "f": f, "g": g, "expected": expected, "got": r}));
                }
            }
        }
    }
    // the in-place form is the same juxtaposition
    {
        let mut a = build_lax(f);
        let r = catch(|| a.tensor_assign(build_lax(g)));
        loc.trans(1);
        match r.map(|_| decode_lax(&a)) {
            Ok(Ok(d)) if d == expected => {}
            other => loc.violation("lax-tensor_assign-not-the-juxtaposition", json!({"f": f, "g": g, "expected": expected, "got": format!("{:?}", other)})),
        }
    }
    if !f.open.nodes.is_empty() && (!g.quot.is_empty() || !g.open.edges.is_empty()) {
        loc.nontrivial();
    }
    loc.outcome(&(expected.open.nodes.len(), expected.open.edges.len(), expected.quot.len(), expected.open.s.len()));
    loc.sample(|| json!({"f": f, "g": g}));
}

pub fn check_lax_unit(f: &L, loc: &mut Local) {
    let unit: Vec<u8> = <LOpen<u8, u8> as Monoidal>::unit();
    if !unit.is_empty() {
        loc.violation("lax-unit-object-not-empty", json!({"unit": unit}));
    }
    let e: L = match decode_lax(&LOpen::<u8, u8>::empty()) {
        Ok(e) => e,
        Err(m) => return loc.violation("lax-empty-malformed", json!({"msg": m})),
    };
    let id: L = match catch(|| <LOpen<u8, u8> as Arrow>::identity(vec![])) {
        Ok(x) => decode_lax(&x).unwrap_or_else(|_| e.clone()),
        Err(p) => return loc.violation("lax-identity-panic", json!({"msg": p})),
    };
    if id != e {
        loc.violation("lax-identity-on-unit-is-not-empty", json!({"got": id}));
    }
    for (name, got) in [("f|unit", lax_tensor(f, &e, 0)), ("unit|f", lax_tensor(&e, f, 0))] {
        loc.trans(1);
        match got {
            Err(er) => fail(loc, name, &er, json!({"f": f})),
            Ok(r) => {
                if r != *f {
                    loc.violation("lax-unit-law-not-on-the-nose", json!({"law": name, "f": f, "got": r}));
                }
            }
        }
    }
    loc.nontrivial();
    loc.outcome(&(f.open.nodes.len(), f.open.edges.len(), f.quot.len()));
}

pub fn check_lax_assoc(f: &L, g: &L, h: &L, loc: &mut Local) {
    let l = lax_tensor(f, g, 0).and_then(|fg| lax_tensor(&fg, h, 0));
    let r = lax_tensor(g, h, 0).and_then(|gh| lax_tensor(f, &gh, 0));
    loc.trans(4);
    match (l, r) {
        (Ok(l), Ok(r)) => {
            if l != r {
                loc.violation("lax-tensor-not-associative-on-the-nose", json!({"f": f, "g": g, "h": h, "left": l, "right": r}));
            }
            loc.outcome(&(l.open.nodes.len(), l.open.edges.len(), l.quot.len()));
        }
        (Err(e), _) | (_, Err(e)) => fail(loc, "lax-assoc", &e, json!({"f": f, "g": g, "h": h})),
    }
    if !f.open.nodes.is_empty() && !g.open.nodes.is_empty() && !h.quot.is_empty() {
        loc.nontrivial();
    }
}
