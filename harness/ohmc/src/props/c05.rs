//! C05 — every operation returns a well-formed, correctly typed diagram.
//! (Well-formedness is the deep check done by the decoders; here the promised *types* are checked.)
use crate::laxconv::*;
use crate::ops::*;
use ohmc_core::explore::*;
use ohmc_core::iso::iso;
use ohmc_core::plain::*;
use open_hypergraphs::category::*;
use serde_json::{json, Value};

type P = POpen<u8, u8>;
type L = PLax<u8, u8>;

fn typed(loc: &mut Local, what: &str, r: Res<Option<P>>, src: &[u8], tgt: &[u8], case: &Value) -> Option<P> {
    loc.trans(1);
    match r {
        Err(e) => {
            loc.violation(&format!("{}:{}", what, e.kind()), json!({"op": what, "failure": e.msg(), "case": case}));
            None
        }
        Ok(None) => None,
        Ok(Some(p)) => {
            if p.source_type() != src || p.target_type() != tgt {
                loc.violation(&format!("{}:wrong-type", what), json!({"op": what, "case": case, "got": p, "expected_source": src, "expected_target": tgt}));
            }
            Some(p)
        }
    }
}

fn cat(a: &[u8], b: &[u8]) -> Vec<u8> {
    a.iter().chain(b.iter()).cloned().collect()
}

pub fn check_pair<B: StrictOps>(f: &P, g: &P, loc: &mut Local) {
    let case = json!({"f": f, "g": g});
    let (a, b, c, d) = (f.source_type(), f.target_type(), g.source_type(), g.target_type());
    let r = typed(loc, "compose", B::compose(f, g), &a, &d, &case);
    if r.is_some() != (b == c) {
        loc.violation("compose:definedness", json!({"case": case}));
    }
    typed(loc, "tensor", B::tensor(f, g).map(Some), &cat(&a, &c), &cat(&b, &d), &case);
    // hypergraph-level entry points: coproduct, `+`, empty, discrete
    loc.trans(4);
    match B::hypergraph_level(f, g) {
        Err(e) => loc.violation(&format!("hypergraph-level:{}", e.kind()), json!({"case": case, "failure": e.msg()})),
        Ok((cp, add, empty, (disc, is_disc))) => {
            let mut exp = f.tensor(g);
            exp.s.clear();
            exp.t.clear();
            if cp != exp || add != exp {
                loc.violation("Hypergraph::coproduct-or-+:not-the-juxtaposition", json!({"case": case, "coproduct": cp, "plus": add, "expected": exp}));
            }
            if !empty.nodes.is_empty() || !empty.edges.is_empty() {
                loc.violation("Hypergraph::empty-not-empty", json!({"got": empty}));
            }
            if disc.nodes != f.nodes || !disc.edges.is_empty() || !is_disc {
                loc.violation("Hypergraph::discrete-wrong", json!({"case": case, "got": disc, "is_discrete": is_disc}));
            }
        }
    }
    if b == c {
        loc.nontrivial();
    }
    loc.outcome(&(a.len(), b.len(), c.len(), d.len(), r.is_some()));
}

pub fn check_single<B: StrictOps>(f: &P, loc: &mut Local) {
    let case = json!({"f": f});
    let (a, b) = (f.source_type(), f.target_type());
    typed(loc, "dagger", B::dagger(f).map(Some), &b, &a, &case);
    typed(loc, "identity", B::identity::<u8, u8>(&a).map(Some), &a, &a, &case);
    typed(loc, "twist", B::twist::<u8, u8>(&a, &b).map(Some), &cat(&a, &b), &cat(&b, &a), &case);
    // the library's own type accessors agree with the plain reading
    loc.trans(2);
    match B::source_target(f) {
        Ok((s, t)) => {
            if s != a || t != b {
                loc.violation("source/target-accessor", json!({"case": case, "got": [s, t]}));
            }
        }
        Err(e) => loc.violation(&format!("source/target:{}", e.kind()), json!({"case": case, "failure": e.msg()})),
    }
    match B::source_target_trait(f) {
        Ok((s, t)) => {
            if s != a || t != b {
                loc.violation("Arrow::source/target-differ-from-the-type", json!({"case": case, "got": [s, t]}));
            }
        }
        Err(e) => loc.violation(&format!("Arrow::source/target:{}", e.kind()), json!({"case": case, "failure": e.msg()})),
    }
    match B::validate_roundtrip(f) {
        Ok(true) => {}
        other => loc.violation("validate-rejects-well-formed", json!({"case": case, "got": format!("{:?}", other)})),
    }
    // spider with f's legs on f's nodes
    let n = f.nodes.len();
    let w: Vec<u8> = f.nodes.clone();
    if let Some(sp) = typed(loc, "spider", B::spider::<u8, u8>((&f.s, n), (&f.t, n), &w, false), &a, &b, &case) {
        if !sp.edges.is_empty() {
            loc.violation("spider:not-discrete", json!({"case": case, "got": sp}));
        }
    }
    typed(loc, "half_spider", B::half_spider::<u8, u8>((&f.s, n), &w), &a, &w, &case);
    // as a hypergraph: coequalize along every surjection of its nodes
    for k in 0..=n {
        for q in ohmc_core::uni::tables(n, k) {
            if !(0..k).all(|c| q.contains(&c)) {
                continue;
            }
            loc.trans(1);
            let hp = P { nodes: f.nodes.clone(), edges: f.edges.clone(), s: vec![], t: vec![] };
            let exp = hp.map_nodes_through(&q, k);
            match B::coequalize_vertices(&hp, (&q, k)) {
                Err(e) => loc.violation(&format!("coequalize_vertices:{}", e.kind()), json!({"case": case, "q": q, "failure": e.msg()})),
                Ok(got) => {
                    if got != exp {
                        loc.violation("coequalize_vertices:wrong", json!({"case": case, "q": q, "got": got, "expected": exp}));
                    }
                }
            }
        }
    }
    loc.nontrivial();
    loc.outcome(&(a.len(), b.len(), n, f.edges.len()));
    loc.sample(|| case.clone());
}

/// operation batches: `ops` is a list of (label, source type, target type)
pub fn check_batch<B: StrictOps>(ops: &[(u8, Vec<u8>, Vec<u8>)], loc: &mut Local) {
    let case = json!({"ops": ops});
    let a: Vec<u8> = ops.iter().flat_map(|o| o.1.clone()).collect();
    let b: Vec<u8> = ops.iter().flat_map(|o| o.2.clone()).collect();
    let mut reference = P::empty();
    for o in ops {
        reference = reference.tensor(&P::singleton(o.0, &o.1, &o.2));
    }
    if let Some(r) = typed(loc, "tensor_operations", B::tensor_operations(ops).map(Some), &a, &b, &case) {
        if !iso(&r, &reference) {
            loc.violation("tensor_operations:not-the-declared-operations", json!({"case": case, "got": r, "expected": reference}));
        }
    }
    if ops.len() == 1 {
        let o = &ops[0];
        if let Some(r) = typed(loc, "singleton", B::singleton(o.0, &o.1, &o.2).map(Some), &o.1, &o.2, &case) {
            if !iso(&r, &reference) {
                loc.violation("singleton:not-the-declared-operation", json!({"case": case, "got": r}));
            }
        }
    }
    if ops.len() >= 2 {
        loc.nontrivial();
    }
    loc.outcome(&(ops.len(), a.len(), b.len()));
}

// ---- lax --------------------------------------------------------------------------------------

fn lax_typed(loc: &mut Local, what: &str, r: Result<Option<LOpen<u8, u8>>, String>, src: &[u8], tgt: &[u8], case: &Value) -> Option<L> {
    loc.trans(1);
    match r {
        Err(p) => {
            loc.violation(&format!("lax-{}:panic", what), json!({"op": what, "panic": p, "case": case}));
            None
        }
        Ok(None) => None,
        Ok(Some(x)) => match decode_lax(&x) {
            Err(m) => {
                loc.violation(&format!("lax-{}:malformed-output", what), json!({"op": what, "why": m, "case": case}));
                None
            }
            Ok(p) => {
                let (s, t) = (Arrow::source(&x), Arrow::target(&x));
                if p.open.source_type() != src || p.open.target_type() != tgt || s != src || t != tgt {
                    loc.violation(&format!("lax-{}:wrong-type", what), json!({"op": what, "case": case, "got": p, "expected_source": src, "expected_target": tgt}));
                }
                Some(p)
            }
        },
    }
}

/// A lax result of well-typed, label-consistent arguments only ever asks to identify equally labelled nodes: it
/// can be strictified, and the strict diagram is well-formed and has the promised type.
fn lax_strictifies(loc: &mut Local, what: &str, r: &Option<L>, x: Result<Option<LOpen<u8, u8>>, String>, src: &[u8], tgt: &[u8], case: &Value) {
    let (Some(p), Ok(Some(x))) = (r, x) else { return };
    loc.trans(1);
    if !p.label_consistent() {
        loc.violation(&format!("lax-{}:asks-to-identify-differently-labelled-nodes", what), json!({"op": what, "case": case, "got": p}));
        return;
    }
    match catch(|| x.to_strict()).and_then(|s| crate::onvec::decode_open(&s)) {
        Err(m) => loc.violation(&format!("lax-{}:result-cannot-be-strictified", what), json!({"op": what, "case": case, "why": m})),
        Ok(s) => {
            if s.source_type() != src || s.target_type() != tgt {
                loc.violation(&format!("lax-{}:strictified-result-has-wrong-type", what), json!({"op": what, "case": case, "got": s}));
            }
        }
    }
}

pub fn check_lax_pair(f: &L, g: &L, loc: &mut Local) {
    let case = json!({"f": f, "g": g});
    let (a, b, c, d) = (f.open.source_type(), f.open.target_type(), g.open.source_type(), g.open.target_type());
    let (lf, lg) = (build_lax(f), build_lax(g));
    let consistent = f.label_consistent() && g.label_consistent();
    let x = catch(|| Arrow::compose(&lf, &lg));
    let r = lax_typed(loc, "compose", x.clone(), &a, &d, &case);
    if r.is_some() != (b == c) {
        loc.violation("lax-compose:definedness", json!({"case": case}));
    }
    if consistent {
        lax_strictifies(loc, "compose", &r, x, &a, &d, &case);
    }
    let r2 = lax_typed(loc, "lax_compose", catch(|| lf.lax_compose(&lg)), &a, &d, &case);
    if r2.is_some() != (b.len() == c.len()) {
        loc.violation("lax_compose:definedness", json!({"case": case}));
    }
    let xt = catch(|| Some(Monoidal::tensor(&lf, &lg)));
    let rt = lax_typed(loc, "tensor", xt.clone(), &cat(&a, &c), &cat(&b, &d), &case);
    if consistent {
        lax_strictifies(loc, "tensor", &rt, xt, &cat(&a, &c), &cat(&b, &d), &case);
    }
    if b == c {
        loc.nontrivial();
    }
    loc.outcome(&(a.len(), b.len(), c.len(), d.len()));
}

pub fn check_lax_single(f: &L, loc: &mut Local) {
    use open_hypergraphs::array::vec::VecKind;
    let case = json!({"f": f});
    let (a, b) = (f.open.source_type(), f.open.target_type());
    let lf = build_lax(f);
    lax_typed(loc, "dagger", catch(|| Some(Spider::<VecKind>::dagger(&lf))), &b, &a, &case);
    lax_typed(loc, "identity", catch(|| Some(<LOpen<u8, u8> as Arrow>::identity(a.clone()))), &a, &a, &case);
    lax_typed(loc, "twist", catch(|| Some(<LOpen<u8, u8> as SymmetricMonoidal>::twist(a.clone(), b.clone()))), &cat(&a, &b), &cat(&b, &a), &case);
    lax_typed(loc, "singleton", catch(|| Some(LOpen::<u8, u8>::singleton(3, a.clone(), b.clone()))), &a, &b, &case);
    // quotient (when label-consistent) keeps the type; to_strict gives a well-formed strict diagram of the same type
    if f.label_consistent() {
        let mut q = lf.clone();
        let r = catch(|| q.quotient().is_ok());
        loc.trans(2);
        match r {
            Ok(true) => match decode_lax(&q) {
                Ok(p) => {
                    if p.open.source_type() != a || p.open.target_type() != b {
                        loc.violation("lax-quotient:wrong-type", json!({"case": case, "got": p}));
                    }
                }
                Err(m) => loc.violation("lax-quotient:malformed-output", json!({"case": case, "why": m})),
            },
            other => loc.violation("lax-quotient:failed-on-consistent-labels", json!({"case": case, "got": format!("{:?}", other)})),
        }
        match catch(|| lf.clone().to_strict()) {
            Err(p) => loc.violation("to_strict:panic", json!({"case": case, "panic": p})),
            Ok(s) => match crate::onvec::decode_open(&s) {
                Err(m) => loc.violation("to_strict:malformed-output", json!({"case": case, "why": m})),
                Ok(p) => {
                    if p.source_type() != a || p.target_type() != b {
                        loc.violation("to_strict:wrong-type", json!({"case": case, "got": p}));
                    }
                    // and back
                    match catch(|| LOpen::from_strict(s)).map(|l| decode_lax(&l)) {
                        Ok(Ok(l)) if l.open == p && l.quot.is_empty() => {}
                        other => loc.violation("from_strict:wrong", json!({"case": case, "got": format!("{:?}", other)})),
                    }
                }
            },
        }
        loc.nontrivial();
    }
    // lax::Hypergraph::discrete: the given nodes and nothing else
    {
        let d = catch(|| LHyper::<u8, u8>::discrete(f.open.nodes.clone())).and_then(|h| decode_lax_hyper(&h));
        loc.trans(1);
        match d {
            Ok(p) if p.open.nodes == f.open.nodes && p.open.edges.is_empty() && p.quot.is_empty() => {}
            other => loc.violation("lax-Hypergraph::discrete:wrong", json!({"case": case, "got": format!("{:?}", other)})),
        }
    }
    loc.outcome(&(a.len(), b.len(), f.quot.len()));
    loc.sample(|| case.clone());
}

/// imperative edits keep the diagram well-formed: every deletion of every list of <= 2 valid node /
/// edge identifiers leaves every reference in range and the type readable
pub fn check_lax_deletions(f: &L, loc: &mut Local) {
    use open_hypergraphs::lax::{EdgeId, NodeId};
    let n = f.open.nodes.len();
    let m = f.open.edges.len();
    for ids in ohmc_core::uni::lists(n, 2) {
        loc.trans(1);
        let mut o = build_lax(f);
        let r = catch(|| o.delete_nodes(&ids.iter().map(|&i| NodeId(i)).collect::<Vec<_>>()));
        // the type afterwards: the labels of the interface entries that survive
        let keep = |ifc: &Vec<usize>| -> Vec<u8> { ifc.iter().filter(|v| !ids.contains(v)).map(|&v| f.open.nodes[v]).collect() };
        match r.map(|_| decode_lax(&o)) {
            Ok(Ok(d)) => {
                if d.open.source_type() != keep(&f.open.s) || d.open.target_type() != keep(&f.open.t) {
                    loc.violation("delete_nodes:wrong-type-afterwards", json!({"f": f, "ids": ids, "got": d}));
                }
            }
            other => loc.violation("delete_nodes:leaves-malformed-diagram", json!({"f": f, "ids": ids, "got": format!("{:?}", other)})),
        }
    }
    for ids in ohmc_core::uni::lists(m, 2) {
        loc.trans(1);
        let mut o = build_lax(f);
        let r = catch(|| o.delete_edges(&ids.iter().map(|&i| EdgeId(i)).collect::<Vec<_>>()));
        match r.map(|_| decode_lax(&o)) {
            Ok(Ok(_)) => {}
            other => loc.violation("delete_edges:leaves-malformed-diagram", json!({"f": f, "ids": ids, "got": format!("{:?}", other)})),
        }
    }
    if n >= 2 && !f.open.s.is_empty() {
        loc.nontrivial();
    }
    loc.outcome(&(n, m, f.open.s.len(), f.open.t.len()));
}
