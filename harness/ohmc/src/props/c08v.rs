//! C08, Vec-only part: the borrowing iterators `IndexedCoproduct::iter` and `Operations::iter`.
use crate::onvec::*;
use ohmc_core::explore::*;
use serde_json::json;

pub fn check_vec_iters(segs: &(Vec<Vec<usize>>, usize), loc: &mut Local) {
    let (x, c) = segs;
    let labels: Vec<String> = (0..*c).map(|k| format!("L{}", k % 2)).collect();
    let r = catch(|| -> Result<(), String> {
        let ic = seg(x, *c).map_semifinite(&sf(&labels)).ok_or("map_semifinite None")?;
        let e: Vec<Vec<String>> = x.iter().map(|l| l.iter().map(|&v| labels[v].clone()).collect()).collect();
        let got: Vec<Vec<String>> = ic.iter().map(|s| s.to_vec()).collect();
        if got != e {
            return Err(format!("iter() over {:?} yields {:?}", e, got));
        }
        // a batch of operations with these source types and reversed target types
        let n = x.len();
        let ops_x: Vec<u8> = (0..n).map(|k| k as u8).collect();
        let mut rev = e.clone();
        rev.reverse();
        let ops = open_hypergraphs::operations::Operations::new(sf(&ops_x), seg_sf(&e), seg_sf(&rev)).ok_or("Operations::new None")?;
        let got: Vec<(u8, Vec<String>, Vec<String>)> = ops.iter().map(|(a, s, t)| (*a, s.to_vec(), t.to_vec())).collect();
        let exp: Vec<(u8, Vec<String>, Vec<String>)> = (0..n).map(|k| (k as u8, e[k].clone(), rev[k].clone())).collect();
        if got != exp {
            return Err(format!("Operations::iter yields {:?}, expected {:?}", got, exp));
        }
        Ok(())
    });
    loc.trans(2);
    match r {
        Ok(Ok(())) => {}
        Ok(Err(m)) => loc.violation("wrong:vec-iter", json!({"segments": x, "why": m})),
        Err(p) => loc.violation("panic:vec-iter", json!({"segments": x, "panic": p})),
    }
    if x.len() >= 2 {
        loc.nontrivial();
    }
    loc.outcome(&x.len());
}

/// n segments (all empty / all singletons / alternating): the owning and the borrowing iterators must report
/// the exact number of slices still to come before and after the first next(), and yield n slices
pub fn check_many_segments(n: usize, pattern: usize, loc: &mut Local) {
    let x: Vec<Vec<usize>> = (0..n).map(|i| match pattern {
        0 => vec![],
        1 => vec![i % 2],
        _ => if i % 2 == 0 { vec![] } else { vec![1, 0] },
    }).collect();
    let r = catch(|| -> Result<(), String> {
        let mut it = seg(&x, 2).into_iter();
        if it.len() != n || it.size_hint() != (n, Some(n)) {
            return Err(format!("fresh iterator over {} segments reports len {} / size_hint {:?}", n, it.len(), it.size_hint()));
        }
        it.next();
        if it.len() != n - 1 || it.size_hint() != (n - 1, Some(n - 1)) {
            return Err(format!("after one next() of {} segments: len {} / size_hint {:?}", n, it.len(), it.size_hint()));
        }
        if it.count() != n - 1 {
            return Err("owning iterator yields the wrong number of slices".into());
        }
        let labels = vec!["a".to_string(), "b".to_string()];
        let lic = seg(&x, 2).map_semifinite(&sf(&labels)).ok_or("map_semifinite None")?;
        let mut lit = lic.clone().into_iter();
        if lit.len() != n || lit.size_hint() != (n, Some(n)) {
            return Err(format!("fresh label iterator over {} segments reports len {} / size_hint {:?}", n, lit.len(), lit.size_hint()));
        }
        lit.next();
        if lit.len() != n - 1 {
            return Err(format!("label iterator after one next() of {}: len {}", n, lit.len()));
        }
        let got: Vec<usize> = lic.iter().map(|s| s.len()).collect();
        if got != x.iter().map(|l| l.len()).collect::<Vec<_>>() {
            return Err(format!("iter() over {} segments yields the wrong slices", n));
        }
        Ok(())
    });
    loc.trans(3);
    match r {
        Ok(Ok(())) => {}
        Ok(Err(m)) => loc.violation("wrong:many-segments", json!({"segments": n, "pattern": pattern, "why": m})),
        Err(p) => loc.violation("panic:many-segments", json!({"segments": n, "pattern": pattern, "panic": p})),
    }
    loc.nontrivial();
    loc.outcome(&(n, pattern));
}
