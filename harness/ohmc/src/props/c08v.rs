//! C08, Vec-only part: the borrowing iterators `IndexedCoproduct::iter` and `Operations::iter`.
use crate::onvec::*;
use ohmc_core::explore::*;
use serde_json::json;

pub fn check_vec_iters(segs: &(Vec<Vec<usize>>, usize), loc: &mut Local) {
    let (x, c) = segs;
    let labels: Vec<String> = (0..*c).map(|k| format!("L{}", k % 2)).collect();
    let r = catch(|| -> Result<(), String> {
        let ic = seg(x, *c).map_semifinite(&sf(&labels)).ok_or("map_semifinite None")?;
        let e: Vec<Vec<String>> = x.iter().map(|l| l.iter().map(|&v| labels[v].clone()).collect()).collect();
        let got: Vec<Vec<String>> = ic.iter().map(|s| s.to_vec()).collect();
        if got != e {
            return Err(format!("iter() over {:?} yields {:?}", e, got));
        }
        // a batch of operations with these source types and reversed target types
        let n = x.len();
        let ops_x: Vec<u8> = (0..n).map(|k| k as u8).collect();
        let mut rev = e.clone();
        rev.reverse();
        let ops = open_hypergraphs::operations::Operations::new(sf(&ops_x), seg_sf(&e), seg_sf(&rev)).ok_or("Operations::new None")?;
        let got: Vec<(u8, Vec<String>, Vec<String>)> = ops.iter().map(|(a, s, t)| (*a, s.to_vec(), t.to_vec())).collect();
        let exp: Vec<(u8, Vec<String>, Vec<String>)> = (0..n).map(|k| (k as u8, e[k].clone(), rev[k].clone())).collect();
        if got != exp {
            return Err(format!("Operations::iter yields {:?}, expected {:?}", got, exp));
        }
        Ok(())
    });
    loc.trans(2);
    match r {
        Ok(Ok(())) => {}
        Ok(Err(m)) => loc.violation("wrong:vec-iter", json!({"segments": x, "why": m})),
        Err(p) => loc.violation("panic:vec-iter", json!({"segments": x, "panic": p})),
    }
    if x.len() >= 2 {
        loc.nontrivial();
    }
    loc.outcome(&x.len());
}
