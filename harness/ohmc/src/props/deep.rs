//! Deep diagrams (a dependency chain of tens of thousands of operations) for the clauses that say "returns for
//! every well-formed diagram": C15 (layering), C16 (evaluation), C17 (predicates, "totally ... in debug and release
//! builds alike"). The answers for these families are known in closed form, so no quadratic reference is needed.
//!
//! Each case runs in a CHILD PROCESS, on a thread with the default 2 MiB stack of a spawned Rust thread: code that
//! recurses once per layer or per path element overflows its stack there, which kills the process with a signal
//! that cannot be caught in-process. The parent turns "the child did not come back with a verdict" into a
//! violation of the returns-for-every-diagram clause, and a wrong answer into an ordinary violation.
use crate::ops::*;
use ohmc_core::explore::*;
use ohmc_core::plain::*;
use serde_json::json;

type P = POpen<u8, u8>;

pub const FAMILIES: [&str; 4] = ["chain", "chain-backwards", "chain-into-cycle", "star"];

fn edge(label: u8, src: Vec<usize>, tgt: Vec<usize>) -> PEdge<u8> {
    PEdge { label, src, tgt }
}

/// the diagram and, per operation, its depth (None = on or downstream of a cycle)
pub fn family(name: &str, k: usize) -> (P, Vec<Option<usize>>) {
    match name {
        // operation i: node i -> node i + 1 (label 3 = neg in the evaluation signature)
        "chain" => (P { nodes: vec![0; k + 1], edges: (0..k).map(|i| edge(3, vec![i], vec![i + 1])).collect(), s: vec![0], t: vec![k] }, (0..k).map(Some).collect()),
        // the same chain with nodes and operations listed from the far end
        "chain-backwards" => (P { nodes: vec![0; k + 1], edges: (0..k).map(|i| edge(3, vec![k - i], vec![k - i - 1])).collect(), s: vec![k], t: vec![0] }, (0..k).map(Some).collect()),
        // a chain of k operations feeding a 2-cycle
        "chain-into-cycle" => {
            let mut e: Vec<PEdge<u8>> = (0..k).map(|i| edge(3, vec![i], vec![i + 1])).collect();
            e.push(edge(3, vec![k], vec![k + 1]));
            e.push(edge(3, vec![k + 1], vec![k]));
            let mut d: Vec<Option<usize>> = (0..k).map(Some).collect();
            d.push(None);
            d.push(None);
            (P { nodes: vec![0; k + 2], edges: e, s: vec![0], t: vec![k + 1] }, d)
        }
        // control with the same number of nodes and operations and depth 1
        _ => (P { nodes: vec![0; k + 1], edges: (1..=k).map(|i| edge(3, vec![0], vec![i])).collect(), s: vec![0], t: vec![k] }, vec![Some(0); k]),
    }
}

fn neg_interp(l: &u8, args: &[u64]) -> Vec<u64> {
    match l {
        3 => vec![args[0].wrapping_neg()],
        _ => vec![],
    }
}

/// the body of one child: every clause on one deep diagram; Err = wrong answer (with explanation)
pub fn run_case<B: StrictOps>(prop: &str, fam: &str, k: usize) -> Result<(), String> {
    let (f, depth) = family(fam, k);
    let acyclic = depth.iter().all(|d| d.is_some());
    let fail = |what: &str, e: Fail| format!("{} on {}({}): {} {}", what, fam, k, e.kind(), e.msg());
    match prop {
        "C15" => {
            let (order, unv) = B::layer(&f).map_err(|e| fail("layer", e))?;
            if order.len() != depth.len() || unv.len() != depth.len() {
                return Err(format!("layer on {}({}) returns {} layers for {} operations", fam, k, order.len(), depth.len()));
            }
            for (i, d) in depth.iter().enumerate() {
                match d {
                    Some(d) => {
                        if unv[i] != 0 || order[i] != *d {
                            return Err(format!("layer on {}({}): operation {} has layer {} / unvisited {}, expected layer {}", fam, k, i, order[i], unv[i], d));
                        }
                    }
                    None => {
                        if unv[i] != 1 {
                            return Err(format!("layer on {}({}): operation {} is on the cycle but marked visited", fam, k, i));
                        }
                    }
                }
            }
            let (groups, unv2) = B::layered_operations(&f).map_err(|e| fail("layered_operations", e))?;
            if unv2 != unv {
                return Err(format!("layered_operations on {}({}): flags differ from layer()", fam, k));
            }
            let mut seen = vec![0usize; depth.len()];
            for (g, ops) in groups.iter().enumerate() {
                for &o in ops {
                    if o >= depth.len() {
                        return Err(format!("layered_operations on {}({}) lists operation {}", fam, k, o));
                    }
                    if let Some(d) = depth[o] {
                        if d != g {
                            return Err(format!("layered_operations on {}({}): operation {} in group {}, expected {}", fam, k, o, g, d));
                        }
                        seen[o] += 1;
                    }
                }
            }
            if (0..depth.len()).any(|o| depth[o].is_some() && seen[o] != 1) {
                return Err(format!("layered_operations on {}({}): a visited operation is not listed exactly once", fam, k));
            }
        }
        "C16" => {
            let (out, _calls) = B::eval(&f, &[5], &neg_interp).map_err(|e| fail("eval", e))?;
            let expected = if !acyclic {
                None
            } else if fam == "star" {
                Some(vec![5u64.wrapping_neg()])
            } else {
                Some(vec![if k % 2 == 0 { 5 } else { 5u64.wrapping_neg() }])
            };
            if out != expected {
                return Err(format!("eval on {}({}) = {:?}, expected {:?}", fam, k, out, expected));
            }
        }
        _ => {
            for via_open in [true, false] {
                let a = B::is_acyclic(&f, via_open).map_err(|e| fail("is_acyclic", e))?;
                if a != acyclic {
                    return Err(format!("is_acyclic (open entry point: {}) on {}({}) = {}", via_open, fam, k, a));
                }
            }
            let m = B::is_monogamous(&f).map_err(|e| fail("is_monogamous", e))?;
            let expected_m = fam == "chain" || fam == "chain-backwards";
            if m != expected_m {
                return Err(format!("is_monogamous on {}({}) = {}", fam, k, m));
            }
            let mid = f.nodes.len() / 2;
            let (i, o) = B::degrees(&f, mid).map_err(|e| fail("degrees", e))?;
            let (ei, eo) = (f.edges.iter().map(|e| e.tgt.iter().filter(|&&v| v == mid).count()).sum::<usize>(), f.edges.iter().map(|e| e.src.iter().filter(|&&v| v == mid).count()).sum::<usize>());
            if (i, o) != (ei, eo) {
                return Err(format!("degrees of node {} on {}({}) = {:?}, expected {:?}", mid, fam, k, (i, o), (ei, eo)));
            }
        }
    }
    Ok(())
}

/// To be called first thing in main(): if this process is a deep-case child (`--deep-child <family> <k>`), run the
/// case on a 2 MiB thread and exit with 0 (verdict: fine), 3 (verdict: wrong answer, explanation on stdout).
pub fn maybe_child<B: StrictOps>(prop: &'static str) {
    let args: Vec<String> = std::env::args().collect();
    if let Some(p) = args.iter().position(|a| a == "--deep-child") {
        let fam = args[p + 1].clone();
        let k: usize = args[p + 2].parse().expect("size");
        let h = std::thread::Builder::new().stack_size(2 << 20).spawn(move || run_case::<B>(prop, &fam, k)).expect("spawn");
        match h.join() {
            Ok(Ok(())) => std::process::exit(0),
            Ok(Err(why)) => {
                println!("DEEP-WRONG {}", why);
                std::process::exit(3)
            }
            Err(_) => {
                println!("DEEP-WRONG the call panicked");
                std::process::exit(3)
            }
        }
    }
}

/// parent side: one case = one child process
pub fn check_in_child(fam: &str, k: usize, loc: &mut Local) {
    loc.trans(1);
    let exe = std::env::current_exe().expect("current_exe");
    let out = std::process::Command::new(exe).arg("--deep-child").arg(fam).arg(k.to_string()).output();
    let case = json!({"family": fam, "operations": k, "how": "child process, 2 MiB thread stack"});
    match out {
        Err(e) => panic!("cannot spawn the child process for a deep case: {}", e),
        Ok(o) => {
            let stdout = String::from_utf8_lossy(&o.stdout).to_string();
            match o.status.code() {
                Some(0) => {}
                Some(3) => loc.violation("deep:wrong-answer", json!({"case": case, "why": stdout.trim()})),
                other => {
                    let stderr = String::from_utf8_lossy(&o.stderr).to_string();
                    let tail: String = stderr.lines().rev().take(4).collect::<Vec<_>>().into_iter().rev().collect::<Vec<_>>().join(" | ");
                    loc.violation("deep:did-not-return", json!({"case": case, "exit_code": format!("{:?}", other), "status": format!("{:?}", o.status), "stderr_tail": tail}))
                }
            }
        }
    }
    loc.nontrivial();
    loc.outcome(&(fam.to_string(), k));
    loc.sample(|| case.clone());
}
