//! C15 — layering respects dependencies, is as shallow as possible, and flags cycles.
use crate::ops::*;
use ohmc_core::explore::*;
use ohmc_core::plain::*;
use serde_json::json;

type P = POpen<u8, u8>;

/// transitive closure of a boolean relation r[x][y] (paths of length >= 1)
pub fn closure(r: &[Vec<bool>]) -> Vec<Vec<bool>> {
    let n = r.len();
    let mut c: Vec<Vec<bool>> = r.to_vec();
    for k in 0..n {
        for i in 0..n {
            for j in 0..n {
                if c[i][k] && c[k][j] {
                    c[i][j] = true;
                }
            }
        }
    }
    c
}

/// expected unvisited flags: on a cycle or downstream of one
pub fn expected_unvisited(dep: &[Vec<bool>]) -> Vec<bool> {
    let n = dep.len();
    let c = closure(dep);
    let on_cycle: Vec<bool> = (0..n).map(|x| c[x][x]).collect();
    (0..n).map(|y| on_cycle[y] || (0..n).any(|x| on_cycle[x] && c[x][y])).collect()
}

/// number of vertices on the longest dependency chain among the vertices in `keep` (acyclic there)
pub fn longest_chain(dep: &[Vec<bool>], keep: &[bool]) -> usize {
    let n = dep.len();
    let mut len = vec![0usize; n];
    for v in 0..n {
        if keep[v] {
            len[v] = 1;
        }
    }
    for _ in 0..n {
        for x in 0..n {
            for y in 0..n {
                if keep[x] && keep[y] && dep[x][y] && len[y] < len[x] + 1 {
                    len[y] = len[x] + 1;
                }
            }
        }
    }
    len.into_iter().max().unwrap_or(0)
}

/// Is (order, unvisited) a correct answer for the dependency relation? Any layering with the
/// stated properties is accepted, not only the one the code happens to produce.
pub fn layering_ok(dep: &[Vec<bool>], order: &[usize], unvisited: &[usize]) -> Result<(), String> {
    let n = dep.len();
    if order.len() != n || unvisited.len() != n {
        return Err(format!("{} layers / {} flags for {} vertices", order.len(), unvisited.len(), n));
    }
    let exp = expected_unvisited(dep);
    for v in 0..n {
        if unvisited[v] > 1 {
            return Err(format!("unvisited flag {} is not 0/1", unvisited[v]));
        }
        if (unvisited[v] == 1) != exp[v] {
            return Err(format!("vertex {} is {} but should be {} (unvisited exactly when on or downstream of a cycle)", v, if unvisited[v] == 1 { "unvisited" } else { "visited" }, if exp[v] { "unvisited" } else { "visited" }));
        }
    }
    let keep: Vec<bool> = exp.iter().map(|b| !b).collect();
    for x in 0..n {
        for y in 0..n {
            if keep[x] && keep[y] && dep[x][y] && order[y] <= order[x] {
                return Err(format!("{} depends on {} but layer({}) = {} <= layer({}) = {}", y, x, y, order[y], x, order[x]));
            }
        }
    }
    let visited: Vec<usize> = (0..n).filter(|&v| keep[v]).collect();
    if !visited.is_empty() {
        let min = visited.iter().map(|&v| order[v]).min().unwrap();
        let max = visited.iter().map(|&v| order[v]).max().unwrap();
        if min != 0 {
            return Err(format!("layers start at {} instead of 0", min));
        }
        let lc = longest_chain(dep, &keep);
        if max + 1 != lc {
            return Err(format!("{} layers used but the longest dependency chain has {} operations", max + 1, lc));
        }
    }
    Ok(())
}

fn sorted(mut v: Vec<usize>) -> Vec<usize> {
    v.sort();
    v
}

pub fn check<B: StrictOps>(f: &P, with_hooks: bool, loc: &mut Local) {
    let dep = f.op_dep();
    let n = f.edges.len();
    loc.trans(2);
    let case = || json!({"diagram": f, "backend": B::NAME});
    let mut sig = (0usize, 0usize);
    match B::layer(f) {
        Err(e) => loc.violation(&format!("layer:{}", e.kind()), json!({"case": case(), "failure": e.msg()})),
        Ok((order, unv)) => {
            if let Err(why) = layering_ok(&dep, &order, &unv) {
                loc.violation("layer:wrong", json!({"case": case(), "why": why, "order": order, "unvisited": unv}));
            }
            sig = (order.iter().max().map(|m| m + 1).unwrap_or(0), unv.iter().sum());
            // grouped form
            match B::layered_operations(f) {
                Err(e) => loc.violation(&format!("layered_operations:{}", e.kind()), json!({"case": case(), "failure": e.msg()})),
                Ok((groups, unv2)) => {
                    if unv2 != unv {
                        loc.violation("layered_operations:flags-differ-from-layer", json!({"case": case(), "layer": unv, "grouped": unv2}));
                    }
                    for v in 0..n {
                        if unv[v] == 0 {
                            let occ: Vec<usize> = groups.iter().enumerate().filter(|(_, g)| g.contains(&v)).map(|(i, _)| i).collect();
                            let times: usize = groups.iter().map(|g| g.iter().filter(|&&x| x == v).count()).sum();
                            if times != 1 || occ != vec![order[v]] {
                                loc.violation("layered_operations:visited-operation-not-listed-once-in-its-layer", json!({"case": case(), "operation": v, "layer": order[v], "groups": groups}));
                                break;
                            }
                        }
                    }
                    if groups.iter().flatten().any(|&x| x >= n) {
                        loc.violation("layered_operations:unknown-operation", json!({"case": case(), "groups": groups}));
                    }
                }
            }
        }
    }
    if with_hooks {
        loc.trans(4);
        // operation adjacency: one entry per (target occurrence of a node in x, source occurrence of it in y)
        let mut adj: Vec<Vec<usize>> = vec![vec![]; n];
        for x in 0..n {
            for v in &f.edges[x].tgt {
                for y in 0..n {
                    for w in &f.edges[y].src {
                        if v == w {
                            adj[x].push(y);
                        }
                    }
                }
            }
        }
        match B::hook_operation_adjacency(f) {
            Err(e) => loc.violation(&format!("operation_adjacency:{}", e.kind()), json!({"case": case(), "failure": e.msg()})),
            Ok(a) => {
                if a.len() != n || (0..n).any(|x| sorted(a[x].clone()) != sorted(adj[x].clone())) {
                    loc.violation("operation_adjacency:wrong", json!({"case": case(), "got": a, "expected": adj}));
                }
            }
        }
        // node adjacency: for every occurrence of v among the sources of a hyperedge, all of that hyperedge's targets
        let mut nadj: Vec<Vec<usize>> = vec![vec![]; f.nodes.len()];
        for e in &f.edges {
            for &v in &e.src {
                nadj[v].extend(e.tgt.iter().cloned());
            }
        }
        match B::hook_node_adjacency(f) {
            Err(e) => loc.violation(&format!("node_adjacency:{}", e.kind()), json!({"case": case(), "failure": e.msg()})),
            Ok(a) => {
                if a.len() != nadj.len() || (0..nadj.len()).any(|v| sorted(a[v].clone()) != sorted(nadj[v].clone())) {
                    loc.violation("node_adjacency:wrong", json!({"case": case(), "got": a, "expected": nadj}));
                }
            }
        }
        // converse of the source incidence
        let srcs: Vec<Vec<usize>> = f.edges.iter().map(|e| e.src.clone()).collect();
        let mut conv: Vec<Vec<usize>> = vec![vec![]; f.nodes.len()];
        for (i, l) in srcs.iter().enumerate() {
            for &v in l {
                conv[v].push(i);
            }
        }
        match B::hook_converse(&srcs, f.nodes.len()) {
            Err(e) => loc.violation(&format!("converse:{}", e.kind()), json!({"case": case(), "failure": e.msg()})),
            Ok(c) => {
                if c.len() != conv.len() || (0..conv.len()).any(|v| sorted(c[v].clone()) != sorted(conv[v].clone())) {
                    loc.violation("converse:wrong", json!({"case": case(), "got": c, "expected": conv}));
                }
            }
        }
        // in-degree and kahn on the reference adjacency
        let indeg: Vec<usize> = (0..n).map(|y| adj.iter().map(|l| l.iter().filter(|&&z| z == y).count()).sum()).collect();
        match B::hook_indegree(&adj) {
            Err(e) => loc.violation(&format!("indegree:{}", e.kind()), json!({"case": case(), "failure": e.msg(), "adjacency": adj})),
            Ok(d) => {
                if d != indeg {
                    loc.violation("indegree:wrong", json!({"case": case(), "got": d, "expected": indeg}));
                }
            }
        }
        match B::hook_kahn(&adj) {
            Err(e) => loc.violation(&format!("kahn:{}", e.kind()), json!({"case": case(), "failure": e.msg(), "adjacency": adj})),
            Ok((o, u)) => {
                if let Err(why) = layering_ok(&dep, &o, &u) {
                    loc.violation("kahn:wrong", json!({"case": case(), "why": why, "order": o, "unvisited": u}));
                }
            }
        }
    }
    let maxmult = (0..n).flat_map(|x| (0..n).map(move |y| (x, y))).map(|(x, y)| f.edges[x].tgt.iter().map(|v| f.edges[y].src.iter().filter(|w| *w == v).count()).sum::<usize>()).max().unwrap_or(0);
    if n >= 2 && (maxmult >= 2 || sig.1 > 0 || sig.0 >= 2) {
        loc.nontrivial();
    }
    loc.outcome(&(n, sig, maxmult));
    loc.sample(|| json!({"diagram": f}));
}
