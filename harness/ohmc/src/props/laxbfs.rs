//! Explicit-state exploration of builder histories of the imperative (`lax`) API.
//!
//! State = the whole mutable diagram as plain data. A transition rebuilds the real object from the
//! state, calls the real method (panics caught), performs the same step on the plain model and
//! compares the return value and every public field. States are deduplicated on exact equality
//! (no abstraction, so no merging argument is needed). A second pass (`live_dfs`) walks the
//! history tree on ONE live object, cloned at branch points, using only real `Clone` and real
//! method calls, to catch history dependence that rebuilding would hide.
use crate::laxconv::*;
use ohmc_core::explore::*;
use ohmc_core::plain::*;
use open_hypergraphs::lax::{EdgeId, Hyperedge, NodeId};
use rayon::prelude::*;
use serde::Serialize;
use serde_json::{json, Value};
use std::collections::HashMap;

type L = PLax<u8, u8>;

#[derive(Clone, Debug, PartialEq, Eq, Hash, Serialize)]
pub enum Act {
    NewNode(u8),
    NewEdge(u8, Vec<usize>, Vec<usize>),
    NewOperation(u8, Vec<u8>, Vec<u8>),
    AddEdgeSource(usize, u8),
    AddEdgeTarget(usize, u8),
    Unify(usize, usize),
    DeleteNodes(Vec<usize>),
    DeleteEdges(Vec<usize>),
    /// relabel every node l -> 1 - l (through map_nodes if `via_map`, else with_nodes)
    RelabelNodes(bool),
    RelabelEdges(bool),
    /// with_nodes / with_edges with a closure returning a list of the wrong length: must return None
    WithNodesWrongLength,
    WithEdgesWrongLength,
    PushSource(usize),
    PushTarget(usize),
    Quotient,
}

#[derive(Clone, Debug)]
pub struct Bounds {
    pub nodes: usize,
    pub edges: usize,
    pub pairs: usize,
    pub iface: usize,
    pub arity_s: usize,
    pub arity_t: usize,
    pub labels: u8,
    pub del_ids: usize,
    /// operate on lax::Hypergraph (no interfaces) instead of lax::OpenHypergraph
    pub hyper_only: bool,
    pub alphabet: Alphabet,
}

#[derive(Clone, Copy, Debug, PartialEq, Eq)]
pub enum Alphabet {
    /// unify / quotient / new_node only (C09 histories)
    Quotient,
    /// every builder call (C11)
    Full,
}

fn within(b: &Bounds, s: &L) -> bool {
    s.open.nodes.len() <= b.nodes
        && s.open.edges.len() <= b.edges
        && s.quot.len() <= b.pairs
        && s.open.s.len() <= b.iface
        && s.open.t.len() <= b.iface
        && s.open.edges.iter().all(|e| e.src.len() <= b.arity_s && e.tgt.len() <= b.arity_t)
}

pub fn actions(b: &Bounds, s: &L) -> Vec<Act> {
    let n = s.open.nodes.len();
    let m = s.open.edges.len();
    let mut v = vec![];
    for l in 0..b.labels {
        v.push(Act::NewNode(l));
    }
    for a in 0..n {
        for c in 0..n {
            v.push(Act::Unify(a, c));
        }
    }
    v.push(Act::Quotient);
    if b.alphabet == Alphabet::Quotient {
        return v;
    }
    for l in 0..b.labels.min(2) {
        for src in ohmc_core::uni::lists(n, b.arity_s) {
            for tgt in ohmc_core::uni::lists(n, b.arity_t) {
                v.push(Act::NewEdge(l, src.clone(), tgt.clone()));
            }
        }
    }
    let tys = |k: usize| -> Vec<Vec<u8>> { ohmc_core::uni::lists(b.labels as usize, k).into_iter().map(|l| l.into_iter().map(|x| x as u8).collect()).collect() };
    for st in tys(b.arity_s.min(2)) {
        for tt in tys(b.arity_t.min(1)) {
            v.push(Act::NewOperation(0, st.clone(), tt.clone()));
        }
    }
    for e in 0..m {
        v.push(Act::AddEdgeSource(e, 0));
        v.push(Act::AddEdgeTarget(e, (b.labels - 1).min(1)));
    }
    // deletions: id lists over 0..=count (valid, duplicate and exactly one out-of-range id)
    for ids in ohmc_core::uni::lists(n + 1, b.del_ids) {
        v.push(Act::DeleteNodes(ids));
    }
    for ids in ohmc_core::uni::lists(m + 1, b.del_ids) {
        v.push(Act::DeleteEdges(ids));
    }
    v.push(Act::RelabelNodes(true));
    v.push(Act::RelabelNodes(false));
    v.push(Act::RelabelEdges(true));
    v.push(Act::RelabelEdges(false));
    v.push(Act::WithNodesWrongLength);
    v.push(Act::WithEdgesWrongLength);
    if !b.hyper_only {
        for a in 0..n {
            v.push(Act::PushSource(a));
            v.push(Act::PushTarget(a));
        }
    }
    v
}

/// what the model expects of a call
#[derive(Clone, Debug, PartialEq)]
pub enum Expect {
    /// the call is rejected (panics) and leaves the diagram as it was
    Rejected,
    /// the object is consumed and the call returns None
    ConsumedNone,
    /// new state and the JSON rendering of the value the call must return
    Next(L, Value),
}

pub fn model_step(s: &L, a: &Act) -> Expect {
    let mut t = s.clone();
    let n = s.open.nodes.len();
    let m = s.open.edges.len();
    match a {
        Act::NewNode(l) => {
            t.open.nodes.push(*l);
            Expect::Next(t, json!(n))
        }
        Act::NewEdge(l, src, tgt) => {
            t.open.edges.push(PEdge { label: *l, src: src.clone(), tgt: tgt.clone() });
            Expect::Next(t, json!(m))
        }
        Act::NewOperation(l, st, tt) => {
            let src: Vec<usize> = (n..n + st.len()).collect();
            let tgt: Vec<usize> = (n + st.len()..n + st.len() + tt.len()).collect();
            t.open.nodes.extend(st.iter().cloned());
            t.open.nodes.extend(tt.iter().cloned());
            t.open.edges.push(PEdge { label: *l, src: src.clone(), tgt: tgt.clone() });
            Expect::Next(t, json!([m, [src, tgt]]))
        }
        Act::AddEdgeSource(e, l) => {
            t.open.nodes.push(*l);
            t.open.edges[*e].src.push(n);
            Expect::Next(t, json!(n))
        }
        Act::AddEdgeTarget(e, l) => {
            t.open.nodes.push(*l);
            t.open.edges[*e].tgt.push(n);
            Expect::Next(t, json!(n))
        }
        Act::Unify(a, b) => {
            t.quot.push((*a, *b));
            Expect::Next(t, Value::Null)
        }
        Act::DeleteNodes(ids) => {
            if ids.iter().any(|&i| i >= n) {
                return Expect::Rejected;
            }
            let keep: Vec<bool> = (0..n).map(|v| !ids.contains(&v)).collect();
            let mut new_index: Vec<Option<usize>> = vec![None; n];
            let mut next = 0;
            for v in 0..n {
                if keep[v] {
                    new_index[v] = Some(next);
                    next += 1;
                }
            }
            let f = |l: &Vec<usize>| -> Vec<usize> { l.iter().filter_map(|&v| new_index[v]).collect() };
            t.open.nodes = (0..n).filter(|&v| keep[v]).map(|v| s.open.nodes[v]).collect();
            for e in t.open.edges.iter_mut() {
                e.src = f(&e.src);
                e.tgt = f(&e.tgt);
            }
            t.open.s = f(&s.open.s);
            t.open.t = f(&s.open.t);
            t.quot = s.quot.iter().filter_map(|&(a, b)| match (new_index[a], new_index[b]) {
                (Some(x), Some(y)) => Some((x, y)),
                _ => None,
            }).collect();
            Expect::Next(t, json!(new_index))
        }
        Act::DeleteEdges(ids) => {
            if ids.iter().any(|&i| i >= m) {
                return Expect::Rejected;
            }
            t.open.edges = (0..m).filter(|e| !ids.contains(e)).map(|e| s.open.edges[e].clone()).collect();
            Expect::Next(t, Value::Null)
        }
        Act::RelabelNodes(_) => {
            for l in t.open.nodes.iter_mut() {
                *l = 1 - (*l).min(1);
            }
            Expect::Next(t, Value::Null)
        }
        Act::RelabelEdges(_) => {
            for e in t.open.edges.iter_mut() {
                e.label = 1 - e.label.min(1);
            }
            Expect::Next(t, Value::Null)
        }
        Act::WithNodesWrongLength | Act::WithEdgesWrongLength => Expect::ConsumedNone,
        Act::PushSource(v) => {
            t.open.s.push(*v);
            Expect::Next(t, Value::Null)
        }
        Act::PushTarget(v) => {
            t.open.t.push(*v);
            Expect::Next(t, Value::Null)
        }
        Act::Quotient => match s.quotient() {
            // the numbering of the classes is the library's choice: the comparison of a quotient
            // step is done by `check_quotient`, not by field equality with this state
            Ok((q, k, l)) => Expect::Next(l, json!({"ok": true, "q": q, "k": k})),
            Err(()) => Expect::Next(s.clone(), json!({"ok": false})),
        },
    }
}

/// outcome of the real call
pub enum Real {
    Panicked(String),
    ConsumedNone,
    /// object consumed and replaced (relabelling) or mutated in place, plus rendering of the return value
    Done(Value),
    Quot(Result<(Vec<usize>, usize), (Vec<usize>, usize)>),
}

/// apply `a` to the live object (open hypergraph). The object is left in whatever state the call left it.
pub fn real_step_open(o: &mut LOpen<u8, u8>, a: &Act) -> Real {
    let r = catch(|| -> Real {
        match a {
            Act::NewNode(l) => Real::Done(json!(o.new_node(*l).0)),
            Act::NewEdge(l, s, t) => Real::Done(json!(o.new_edge(*l, Hyperedge { sources: nid(s), targets: nid(t) }).0)),
            Act::NewOperation(l, st, tt) => {
                let (e, (s, t)) = o.new_operation(*l, st.clone(), tt.clone());
                Real::Done(json!([e.0, [un_nid(&s), un_nid(&t)]]))
            }
            Act::AddEdgeSource(e, l) => Real::Done(json!(o.add_edge_source(EdgeId(*e), *l).0)),
            Act::AddEdgeTarget(e, l) => Real::Done(json!(o.add_edge_target(EdgeId(*e), *l).0)),
            Act::Unify(x, y) => {
                o.unify(NodeId(*x), NodeId(*y));
                Real::Done(Value::Null)
            }
            Act::DeleteNodes(ids) => {
                // the open hypergraph's delete_nodes returns nothing; the witness is observed on the
                // hypergraph-level model run
                o.delete_nodes(&nid(ids));
                Real::Done(Value::Null)
            }
            Act::DeleteEdges(ids) => {
                o.delete_edges(&eid(ids));
                Real::Done(Value::Null)
            }
            Act::RelabelNodes(via_map) => {
                let old = std::mem::replace(o, LOpen::empty());
                *o = if *via_map { old.map_nodes(|l| 1 - l.min(1)) } else { old.with_nodes(|ns| ns.into_iter().map(|l| 1 - l.min(1)).collect()).expect("LIBRARY: with_nodes returned None for a list of the right length") };
                Real::Done(Value::Null)
            }
            Act::RelabelEdges(via_map) => {
                let old = std::mem::replace(o, LOpen::empty());
                *o = if *via_map { old.map_edges(|l| 1 - l.min(1)) } else { old.with_edges(|es| es.into_iter().map(|l| 1 - l.min(1)).collect()).expect("LIBRARY: with_edges returned None for a list of the right length") };
                Real::Done(Value::Null)
            }
            Act::WithNodesWrongLength => {
                let old = std::mem::replace(o, LOpen::empty());
                match old.with_nodes(|mut ns| {
                    ns.push(0u8);
                    ns
                }) {
                    None => Real::ConsumedNone,
                    Some(x) => {
                        *o = x;
                        Real::Done(json!("Some"))
                    }
                }
            }
            Act::WithEdgesWrongLength => {
                let old = std::mem::replace(o, LOpen::empty());
                match old.with_edges(|mut es| {
                    es.push(0u8);
                    es
                }) {
                    None => Real::ConsumedNone,
                    Some(x) => {
                        *o = x;
                        Real::Done(json!("Some"))
                    }
                }
            }
            Act::PushSource(v) => {
                o.sources.push(NodeId(*v));
                Real::Done(Value::Null)
            }
            Act::PushTarget(v) => {
                o.targets.push(NodeId(*v));
                Real::Done(Value::Null)
            }
            Act::Quotient => Real::Quot(match o.quotient() {
                Ok(q) => Ok((q.table.0, q.target)),
                Err(q) => Err((q.table.0, q.target)),
            }),
        }
    });
    match r {
        Ok(x) => x,
        Err(p) => Real::Panicked(p),
    }
}

/// the same on a bare lax::Hypergraph (returns the deletion witness)
pub fn real_step_hyper(h: &mut LHyper<u8, u8>, a: &Act) -> Real {
    let r = catch(|| -> Real {
        match a {
            Act::NewNode(l) => Real::Done(json!(h.new_node(*l).0)),
            Act::NewEdge(l, s, t) => Real::Done(json!(h.new_edge(*l, (nid(s), nid(t))).0)),
            Act::NewOperation(l, st, tt) => {
                let (e, (s, t)) = h.new_operation(*l, st.clone(), tt.clone());
                Real::Done(json!([e.0, [un_nid(&s), un_nid(&t)]]))
            }
            Act::AddEdgeSource(e, l) => Real::Done(json!(h.add_edge_source(EdgeId(*e), *l).0)),
            Act::AddEdgeTarget(e, l) => Real::Done(json!(h.add_edge_target(EdgeId(*e), *l).0)),
            Act::Unify(x, y) => {
                h.unify(NodeId(*x), NodeId(*y));
                Real::Done(Value::Null)
            }
            Act::DeleteNodes(ids) => Real::Done(json!(h.delete_nodes_witness(&nid(ids)))),
            Act::DeleteEdges(ids) => {
                h.delete_edges(&eid(ids));
                Real::Done(Value::Null)
            }
            Act::RelabelNodes(via_map) => {
                let old = std::mem::replace(h, LHyper::empty());
                *h = if *via_map { old.map_nodes(|l| 1 - l.min(1)) } else { old.with_nodes(|ns| ns.into_iter().map(|l| 1 - l.min(1)).collect()).expect("LIBRARY: with_nodes returned None for a list of the right length") };
                Real::Done(Value::Null)
            }
            Act::RelabelEdges(via_map) => {
                let old = std::mem::replace(h, LHyper::empty());
                *h = if *via_map { old.map_edges(|l| 1 - l.min(1)) } else { old.with_edges(|es| es.into_iter().map(|l| 1 - l.min(1)).collect()).expect("LIBRARY: with_edges returned None for a list of the right length") };
                Real::Done(Value::Null)
            }
            Act::WithNodesWrongLength => {
                let old = std::mem::replace(h, LHyper::empty());
                match old.with_nodes(|mut ns| {
                    ns.push(0u8);
                    ns
                }) {
                    None => Real::ConsumedNone,
                    Some(x) => {
                        *h = x;
                        Real::Done(json!("Some"))
                    }
                }
            }
            Act::WithEdgesWrongLength => {
                let old = std::mem::replace(h, LHyper::empty());
                match old.with_edges(|mut es| {
                    es.push(0u8);
                    es
                }) {
                    None => Real::ConsumedNone,
                    Some(x) => {
                        *h = x;
                        Real::Done(json!("Some"))
                    }
                }
            }
            Act::PushSource(_) | Act::PushTarget(_) => Real::Done(Value::Null),
            Act::Quotient => Real::Quot(match h.quotient() {
                Ok(q) => Ok((q.table.0, q.target)),
                Err(q) => Err((q.table.0, q.target)),
            }),
        }
    });
    match r {
        Ok(x) => x,
        Err(p) => Real::Panicked(p),
    }
}

/// Judge a quotient step: `before` is the state before the call, `after` the decoded state after.
/// Returns the successor state (the decoded real state) or an error description.
pub fn check_quotient(before: &L, res: &Result<(Vec<usize>, usize), (Vec<usize>, usize)>, after: &L) -> Result<(), String> {
    let n = before.open.nodes.len();
    let (rq, rk) = classes(n, &before.quot);
    let consistent = before.label_consistent();
    match res {
        Err(_) => {
            if consistent {
                return Err("quotient failed although every class carries one label".into());
            }
            if after != before {
                return Err(format!("a failed quotient changed the diagram: {:?}", after));
            }
            Ok(())
        }
        Ok((q, k)) => {
            if !consistent {
                return Err("quotient succeeded although some class contains two labels".into());
            }
            if q.len() != n || !is_dense_surjection(q, *k) {
                return Err(format!("returned map {:?} -> {} is not a surjection from the {} old nodes onto a dense range", q, k, n));
            }
            if *k != rk || !same_partition(q, &rq) {
                return Err(format!("fibres of the returned map {:?} are not the connected components of the unification pairs (reference {:?})", q, rq));
            }
            let exp = before.open.map_nodes_through(q, *k).ok_or("label conflict")?;
            if after.open != exp {
                return Err(format!("after the quotient the diagram is {:?}, expected every reference replaced by its image under q: {:?}", after.open, exp));
            }
            if !after.quot.is_empty() {
                return Err(format!("pending unifications not cleared: {:?}", after.quot));
            }
            Ok(())
        }
    }
}

pub struct StepOutcome {
    pub next: Option<L>,
    pub violation: Option<(String, String)>,
}

/// one checked transition on a freshly rebuilt object
pub fn checked_step(b: &Bounds, s: &L, a: &Act) -> StepOutcome {
    let exp = model_step(s, a);
    // rebuild, call, decode
    let (real, after): (Real, Result<L, String>) = if b.hyper_only {
        let mut h = build_lax_hyper(s);
        let r = real_step_hyper(&mut h, a);
        (r, decode_lax_hyper(&h))
    } else {
        let mut o = build_lax(s);
        let r = real_step_open(&mut o, a);
        (r, decode_lax(&o))
    };
    judge(b, s, a, exp, real, after)
}

pub fn judge(b: &Bounds, s: &L, a: &Act, exp: Expect, real: Real, after: Result<L, String>) -> StepOutcome {
    let bad = |k: &str, m: String| StepOutcome { next: None, violation: Some((k.to_string(), m)) };
    match (exp, real) {
        (Expect::Rejected, Real::Panicked(_)) => {
            // rejection is all or nothing: the refused call "touches nothing else" either (two independent readers of
            // the property - the author of variants C11-e1/e2 and the author of C11-y1 - took it that way)
            let same = match &after {
                Ok(x) => x.open.nodes == s.open.nodes && x.open.edges == s.open.edges && x.quot == s.quot && (b.hyper_only || (x.open.s == s.open.s && x.open.t == s.open.t)),
                Err(_) => false,
            };
            if same {
                StepOutcome { next: None, violation: None }
            } else {
                bad("rejected-call-changed-the-diagram", format!("state after the refused call: {:?}", after))
            }
        }
        (Expect::Rejected, _) => bad("out-of-range-identifier-accepted", format!("state after: {:?}", after)),
        (_, Real::Panicked(p)) => bad("panic", p),
        (Expect::ConsumedNone, Real::ConsumedNone) => StepOutcome { next: None, violation: None },
        (Expect::ConsumedNone, _) => bad("with-wrong-length-accepted", "with_nodes/with_edges returned Some for a list of the wrong length".into()),
        (Expect::Next(..), Real::ConsumedNone) => bad("unexpected-none", "call returned None".into()),
        (Expect::Next(t, _), Real::Quot(res)) => {
            let after = match after {
                Ok(x) => x,
                Err(m) => return bad("malformed-after-quotient", m),
            };
            if let Err(m) = check_quotient(s, &res, &after) {
                return bad("quotient", m);
            }
            let _ = t;
            StepOutcome { next: Some(after), violation: None }
        }
        (Expect::Next(t, ret), Real::Done(got)) => {
            let after = match after {
                Ok(x) => x,
                Err(m) => return bad("malformed-after-step", m),
            };
            // the open hypergraph's delete_nodes returns nothing
            let ret_matters = !(matches!(a, Act::DeleteNodes(_)) && !b.hyper_only);
            if ret_matters && got != ret {
                return bad("wrong-return-value", format!("returned {} expected {}", got, ret));
            }
            let mut t = t;
            if b.hyper_only {
                t.open.s.clear();
                t.open.t.clear();
            }
            if after != t {
                return bad("state-differs-from-model", format!("after: {:?} expected: {:?}", after, t));
            }
            StepOutcome { next: Some(t), violation: None }
        }
    }
}

pub struct BfsResult {
    pub states: u64,
    pub transitions: u64,
    pub depth: usize,
    pub complete: bool,
    pub violations: Vec<Value>,
    pub per_depth: Vec<u64>,
    /// the search ran out of new states (rather than into the depth bound or a cap)
    pub fixpoint: bool,
}

/// level-synchronous breadth-first search from `init`, with exact-state deduplication
pub fn bfs(b: &Bounds, init: Vec<L>, max_depth: usize, max_states: u64, deadline: std::time::Instant, threads_one: bool, state_check: &(dyn Fn(&L) -> Option<(String, String)> + Sync)) -> BfsResult {
    // one copy of every state; the index maps a hash to the ids carrying it (equality is checked, so
    // deduplication is exact)
    let mut by_id: Vec<L> = vec![];
    let mut parent: Vec<Option<(u32, Act)>> = vec![];
    let mut index: HashMap<u64, Vec<u32>> = HashMap::new();
    fn lookup(by_id: &Vec<L>, index: &HashMap<u64, Vec<u32>>, s: &L) -> Option<u32> {
        index.get(&stable_hash(s)).and_then(|ids| ids.iter().cloned().find(|&i| by_id[i as usize] == *s))
    }
    let mut frontier: Vec<u32> = vec![];
    for s in init {
        if lookup(&by_id, &index, &s).is_none() {
            let id = by_id.len() as u32;
            index.entry(stable_hash(&s)).or_default().push(id);
            by_id.push(s);
            parent.push(None);
            frontier.push(id);
        }
    }
    let mut res = BfsResult { states: by_id.len() as u64, transitions: 0, depth: 0, complete: true, violations: vec![], per_depth: vec![by_id.len() as u64], fixpoint: false };
    let trace = |by_id: &Vec<L>, parent: &Vec<Option<(u32, Act)>>, mut id: u32| -> Vec<Value> {
        let mut acts = vec![];
        while let Some((p, a)) = &parent[id as usize] {
            acts.push(json!(a));
            id = *p;
        }
        acts.reverse();
        let mut v = vec![json!({"start": by_id[id as usize]})];
        v.extend(acts);
        v
    };
    'levels: for depth in 0..max_depth {
        if frontier.is_empty() {
            break;
        }
        let mut next_frontier = vec![];
        for chunk in frontier.chunks(4096) {
            if std::time::Instant::now() > deadline || by_id.len() as u64 > max_states {
                res.complete = false;
                res.states = by_id.len() as u64;
                break 'levels;
            }
            // successors already known are dropped inside the parallel part (read-only lookups)
            let expand = |&id: &u32| -> (u32, u64, Vec<(Act, Option<L>, Option<(String, String)>)>, Option<(String, String)>) {
                let s = &by_id[id as usize];
                let sc = state_check(s);
                let mut n = 0u64;
                let mut outs = vec![];
                for a in actions(b, s) {
                    let o = checked_step(b, s, &a);
                    n += 1;
                    let next = match o.next {
                        Some(t) if within(b, &t) && lookup(&by_id, &index, &t).is_none() => Some(t),
                        _ => None,
                    };
                    if next.is_some() || o.violation.is_some() {
                        outs.push((a, next, o.violation));
                    }
                }
                (id, n, outs, sc)
            };
            let expanded: Vec<_> = if threads_one { chunk.iter().map(expand).collect() } else { chunk.par_iter().map(expand).collect() };
            for (id, n, outs, sc) in expanded {
                res.transitions += n;
                if let Some((k, m)) = sc {
                    if res.violations.len() < 5 {
                        res.violations.push(json!({"kind": k, "why": m, "trace": trace(&by_id, &parent, id), "state": by_id[id as usize]}));
                    }
                }
                for (a, next, viol) in outs {
                    if let Some((k, m)) = viol {
                        if res.violations.len() < 5 {
                            res.violations.push(json!({"kind": k, "why": m, "trace": trace(&by_id, &parent, id), "action": a, "state": by_id[id as usize]}));
                        }
                    }
                    if let Some(t) = next {
                        if lookup(&by_id, &index, &t).is_none() {
                            let nid_ = by_id.len() as u32;
                            index.entry(stable_hash(&t)).or_default().push(nid_);
                            by_id.push(t);
                            parent.push(Some((id, a)));
                            next_frontier.push(nid_);
                        }
                    }
                }
            }
        }
        res.depth = depth + 1;
        res.states = by_id.len() as u64;
        res.per_depth.push(next_frontier.len() as u64);
        frontier = next_frontier;
    }
    res.fixpoint = frontier.is_empty() && res.complete;
    res
}

/// depth-first walk of the history tree on one live object cloned at branch points
pub fn live_dfs(b: &Bounds, depth: usize, viol: &mut Vec<Value>, counts: &mut (u64, u64)) {
    fn rec(b: &Bounds, o: &LOpen<u8, u8>, m: &L, depth: usize, path: &mut Vec<Act>, viol: &mut Vec<Value>, counts: &mut (u64, u64)) {
        if depth == 0 {
            counts.0 += 1; // one complete history
            return;
        }
        let acts = actions(b, m);
        let mut any = false;
        for a in acts {
            let exp = model_step(m, &a);
            let mut o2 = o.clone();
            let real = if b.hyper_only { real_step_hyper(&mut o2.hypergraph, &a) } else { real_step_open(&mut o2, &a) };
            let after = if b.hyper_only { decode_lax_hyper(&o2.hypergraph) } else { decode_lax(&o2) };
            counts.1 += 1;
            let out = judge(b, m, &a, exp, real, after);
            path.push(a);
            if let Some((k, why)) = out.violation {
                if viol.len() < 5 {
                    viol.push(json!({"kind": format!("live:{}", k), "why": why, "history": path.clone()}));
                }
            }
            if let Some(t) = out.next {
                if within(b, &t) {
                    any = true;
                    rec(b, &o2, &t, depth - 1, path, viol, counts);
                }
            }
            path.pop();
        }
        if !any {
            counts.0 += 1;
        }
    }
    let o = LOpen::<u8, u8>::empty();
    let m = L::strict(POpen::empty());
    rec(b, &o, &m, depth, &mut vec![], viol, counts);
}

/// serde_json round trip and documented JSON shape of a state
pub fn serde_check(s: &L) -> Option<(String, String)> {
    let o = build_lax(s);
    let r = catch(|| -> Result<(), String> {
        let txt = serde_json::to_string(&o).map_err(|e| e.to_string())?;
        let back: LOpen<u8, u8> = serde_json::from_str(&txt).map_err(|e| e.to_string())?;
        if back != o {
            return Err(format!("round trip changed the diagram: {}", txt));
        }
        let v: Value = serde_json::from_str(&txt).map_err(|e| e.to_string())?;
        let exp = json!({
            "sources": s.open.s,
            "targets": s.open.t,
            "hypergraph": {
                "nodes": s.open.nodes,
                "edges": s.open.edges.iter().map(|e| e.label).collect::<Vec<_>>(),
                "adjacency": s.open.edges.iter().map(|e| json!({"sources": e.src, "targets": e.tgt})).collect::<Vec<_>>(),
                "quotient": [s.quot.iter().map(|q| q.0).collect::<Vec<_>>(), s.quot.iter().map(|q| q.1).collect::<Vec<_>>()],
            }
        });
        if v != exp {
            return Err(format!("JSON is {} but the documented shape is {}", v, exp));
        }
        // the bare hypergraph too
        let h = build_lax_hyper(s);
        let txt = serde_json::to_string(&h).map_err(|e| e.to_string())?;
        let back: LHyper<u8, u8> = serde_json::from_str(&txt).map_err(|e| e.to_string())?;
        if back != h {
            return Err("hypergraph round trip changed the data".into());
        }
        Ok(())
    });
    match r {
        Ok(Ok(())) => None,
        Ok(Err(m)) => Some(("serde".into(), m)),
        Err(p) => Some(("serde-panic".into(), p)),
    }
}
