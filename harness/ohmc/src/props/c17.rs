//! C17 — acyclicity, monogamy and degree queries decide their definitions, totally.
use crate::ops::*;
use ohmc_core::explore::*;
use ohmc_core::plain::*;
use serde_json::json;

type P = POpen<u8, u8>;

pub fn check<B: StrictOps>(f: &P, loc: &mut Local) {
    let case = || json!({"diagram": f, "backend": B::NAME});
    let acyc = f.is_acyclic();
    let mono = f.is_monogamous();
    for via_open in [true, false] {
        loc.trans(1);
        match B::is_acyclic(f, via_open) {
            Err(e) => loc.violation(&format!("is_acyclic:{}", e.kind()), json!({"case": case(), "failure": e.msg()})),
            Ok(b) => {
                if b != acyc {
                    loc.violation("is_acyclic:wrong", json!({"case": case(), "got": b, "expected": acyc}));
                }
            }
        }
    }
    loc.trans(1);
    match B::is_monogamous(f) {
        Err(e) => loc.violation(&format!("is_monogamous:{}", e.kind()), json!({"case": case(), "failure": e.msg()})),
        Ok(b) => {
            if b != mono {
                loc.violation("is_monogamous:wrong", json!({"case": case(), "got": b, "expected": mono}));
            }
        }
    }
    for v in 0..f.nodes.len() {
        loc.trans(1);
        match B::degrees(f, v) {
            Err(e) => loc.violation(&format!("degree:{}", e.kind()), json!({"case": case(), "node": v, "failure": e.msg()})),
            Ok((i, o)) => {
                if i != f.in_degree(v) || o != f.out_degree(v) {
                    loc.violation("degree:wrong", json!({"case": case(), "node": v, "got": [i, o], "expected": [f.in_degree(v), f.out_degree(v)]}));
                }
            }
        }
    }
    let isolated = (0..f.nodes.len()).any(|v| f.in_degree(v) + f.out_degree(v) == 0 && !f.s.contains(&v) && !f.t.contains(&v));
    let maxdeg = (0..f.nodes.len()).map(|v| f.in_degree(v).max(f.out_degree(v))).max().unwrap_or(0);
    if isolated || maxdeg >= 3 || !acyc || mono {
        loc.nontrivial();
    }
    loc.outcome(&(acyc, mono, isolated, maxdeg));
    loc.sample(|| json!({"diagram": f, "acyclic": acyc, "monogamous": mono}));
}
