//! C16 — evaluation computes the diagram's function and refuses cyclic diagrams.
use crate::ops::*;
use crate::props::c15::closure;
use ohmc_core::explore::*;
use ohmc_core::plain::*;
use ohmc_core::uni::{s_count, s_unrank};
use serde_json::json;

type P = POpen<u8, u8>;

/// the test signature: (label, arity in, arity out)
pub const SIG: [(u8, usize, usize); 9] = [(0, 2, 1), (1, 2, 1), (2, 2, 1), (3, 1, 1), (4, 1, 2), (5, 2, 2), (6, 0, 1), (7, 1, 0), (8, 2, 1)];
pub const SIG_NAMES: [&str; 9] = ["add", "mul", "sub", "neg", "copy", "swapinc", "const2", "discard", "and"];

pub fn interp(l: &u8, a: &[u64]) -> Vec<u64> {
    match *l {
        0 => vec![a[0].wrapping_add(a[1])],
        1 => vec![a[0].wrapping_mul(a[1])],
        2 => vec![a[0].wrapping_sub(a[1])],
        3 => vec![a[0].wrapping_neg()],
        4 => vec![a[0], a[0]],
        5 => vec![a[1], a[0].wrapping_add(1)],
        6 => vec![2],
        7 => vec![],
        8 => vec![a[0] & a[1]],
        _ => panic!("unknown operation label"),
    }
}

/// Universe of programs over a sub-signature with fixed arities.
pub struct Progs {
    pub sig: Vec<(u8, usize, usize)>,
    pub n_max: usize,
    pub m_max: usize,
    pub a: usize,
    pub b: usize,
    blocks: Vec<(usize, usize, u64, u64)>, // n, m, count, start
    total: u64,
}

impl Progs {
    pub fn new(labels: &[u8], n_max: usize, m_max: usize, a: usize, b: usize) -> Progs {
        let sig: Vec<(u8, usize, usize)> = SIG.iter().cloned().filter(|s| labels.contains(&s.0)).collect();
        let mut shapes = vec![];
        for n in 0..=n_max {
            for m in 0..=m_max {
                shapes.push((n, m));
            }
        }
        shapes.sort_by_key(|&(n, m)| (n + m, n));
        let mut blocks = vec![];
        let mut start = 0u64;
        for (n, m) in shapes {
            let per: u64 = sig.iter().map(|s| (n as u64).pow((s.1 + s.2) as u32)).sum();
            let mut c = 1u64;
            for _ in 0..m {
                c = c.checked_mul(per).unwrap();
            }
            c = c * s_count(n, a) * s_count(n, b);
            blocks.push((n, m, c, start));
            start += c;
        }
        Progs { sig, n_max, m_max, a, b, blocks, total: start }
    }
    pub fn count(&self) -> u64 {
        self.total
    }
    pub fn name(&self) -> String {
        format!("sig{{{}}}n<={}m<={}if{}/{}", self.sig.iter().map(|s| SIG_NAMES[s.0 as usize]).collect::<Vec<_>>().join(","), self.n_max, self.m_max, self.a, self.b)
    }
    pub fn get(&self, i: u64) -> P {
        let b = self.blocks.iter().find(|b| i >= b.3 && i < b.3 + b.2).expect("index in range");
        let (n, m) = (b.0, b.1);
        let mut r = i - b.3;
        let mut take = |radix: u64| {
            let d = r % radix;
            r /= radix;
            d
        };
        let s = s_unrank(n, self.a, take(s_count(n, self.a)));
        let t = s_unrank(n, self.b, take(s_count(n, self.b)));
        let per: u64 = self.sig.iter().map(|s| (n as u64).pow((s.1 + s.2) as u32)).sum();
        let mut edges = vec![];
        for _ in 0..m {
            let mut c = take(per);
            let mut chosen = None;
            for sg in &self.sig {
                let k = (n as u64).pow((sg.1 + sg.2) as u32);
                if c < k {
                    chosen = Some(*sg);
                    break;
                }
                c -= k;
            }
            let sg = chosen.expect("operation choice in range");
            let mut src = vec![];
            for _ in 0..sg.1 {
                src.push((c % n as u64) as usize);
                c /= n as u64;
            }
            let mut tgt = vec![];
            for _ in 0..sg.2 {
                tgt.push((c % n as u64) as usize);
                c /= n as u64;
            }
            edges.push(PEdge { label: sg.0, src, tgt });
        }
        POpen { nodes: vec![0; n], edges, s, t }
    }
}

#[derive(Debug, PartialEq, Eq, Clone, Copy, Hash)]
pub enum Class {
    /// operation dependencies have a cycle: evaluation must refuse
    Cyclic,
    /// acyclic, every node written at most once and every node that is read is written: values are compared
    Functional,
    /// acyclic but some node has several writers or a read node has none: only "returns a result" is compared
    AcyclicOther,
}

pub fn classify(f: &P) -> Class {
    let dep = f.op_dep();
    let c = closure(&dep);
    if (0..dep.len()).any(|x| c[x][x]) {
        return Class::Cyclic;
    }
    let n = f.nodes.len();
    let mut writers = vec![0usize; n];
    for &v in &f.s {
        writers[v] += 1;
    }
    for e in &f.edges {
        for &v in &e.tgt {
            writers[v] += 1;
        }
    }
    if writers.iter().any(|&w| w > 1) {
        return Class::AcyclicOther;
    }
    let read_ok = f.edges.iter().all(|e| e.src.iter().all(|&v| writers[v] == 1)) && f.t.iter().all(|&v| writers[v] == 1);
    if read_ok {
        Class::Functional
    } else {
        Class::AcyclicOther
    }
}

/// recursive reference interpreter, memoised on nodes (numbering independent)
pub fn reference_eval(f: &P, inputs: &[u64]) -> (Vec<u64>, Vec<(u8, Vec<u64>)>) {
    reference_eval_with(f, inputs, &interp)
}

pub fn reference_eval_with(f: &P, inputs: &[u64], interp: &dyn Fn(&u8, &[u64]) -> Vec<u64>) -> (Vec<u64>, Vec<(u8, Vec<u64>)>) {
    fn value(f: &P, inputs: &[u64], interp: &dyn Fn(&u8, &[u64]) -> Vec<u64>, memo: &mut Vec<Option<u64>>, v: usize) -> u64 {
        if let Some(x) = memo[v] {
            return x;
        }
        let r = if let Some(p) = f.s.iter().position(|&x| x == v) {
            inputs[p]
        } else {
            let (e, j) = f.edges.iter().find_map(|e| e.tgt.iter().position(|&x| x == v).map(|j| (e, j))).expect("read node has a writer");
            let args: Vec<u64> = e.src.iter().map(|&s| value(f, inputs, interp, memo, s)).collect();
            interp(&e.label, &args)[j]
        };
        memo[v] = Some(r);
        r
    }
    let mut memo = vec![None; f.nodes.len()];
    let outs: Vec<u64> = f.t.iter().map(|&v| value(f, inputs, interp, &mut memo, v)).collect();
    let mut calls: Vec<(u8, Vec<u64>)> = f.edges.iter().map(|e| (e.label, e.src.iter().map(|&s| value(f, inputs, interp, &mut memo, s)).collect())).collect();
    calls.sort();
    (outs, calls)
}

pub fn check<B: StrictOps>(f: &P, loc: &mut Local) {
    check_on::<B>(f, None, loc)
}

/// large diagrams: three patterned input vectors instead of all 4^k
pub fn check_large<B: StrictOps>(f: &P, loc: &mut Local) {
    check_on::<B>(f, Some(3), loc)
}

fn check_on<B: StrictOps>(f: &P, patterned: Option<u64>, loc: &mut Local) {
    let class = classify(f);
    let case = || json!({"diagram": f, "class": format!("{:?}", class), "backend": B::NAME});
    let k = f.s.len();
    let vectors: u64 = if class == Class::Functional { patterned.unwrap_or_else(|| 4u64.pow(k as u32)) } else { 1 };
    for vi in 0..vectors {
        let inputs: Vec<u64> = if patterned.is_some() { (0..k as u64).map(|p| (p * (2 * vi + 1) + vi) & 3).collect() } else { (0..k).map(|p| (vi >> (2 * p)) & 3).collect() };
        loc.trans(1);
        match B::eval(f, &inputs, &interp) {
            Err(e) => loc.violation(&format!("eval:{}", e.kind()), json!({"case": case(), "inputs": inputs, "failure": e.msg()})),
            Ok((out, mut calls)) => match class {
                Class::Cyclic => {
                    if out.is_some() {
                        loc.violation("eval:result-for-cyclic-diagram", json!({"case": case(), "got": out}));
                    }
                }
                Class::AcyclicOther => {
                    if out.is_none() {
                        loc.violation("eval:refused-acyclic-diagram", json!({"case": case()}));
                    }
                }
                Class::Functional => {
                    let (exp, exp_calls) = reference_eval(f, &inputs);
                    match out {
                        None => loc.violation("eval:refused-acyclic-diagram", json!({"case": case()})),
                        Some(o) => {
                            if o != exp {
                                loc.violation("eval:wrong-values", json!({"case": case(), "inputs": inputs, "got": o, "expected": exp}));
                            }
                        }
                    }
                    calls.sort();
                    if calls != exp_calls {
                        loc.violation("eval:operations-not-applied-exactly-once-on-their-arguments", json!({"case": case(), "inputs": inputs, "got": calls, "expected": exp_calls}));
                    }
                }
            },
        }
    }
    if class != Class::AcyclicOther && f.edges.len() >= 2 {
        loc.nontrivial();
    }
    loc.outcome(&(class, f.edges.len(), f.s.len(), f.t.len()));
    loc.sample(|| case());
}

/// The same evaluation with an interpreter written the way the crate's examples write it: splitting the
/// argument lists with the borrowing iterator `IndexedCoproduct::iter()` (Vec backend only).
pub fn check_with_iter_interpreter(f: &P, loc: &mut Local) {
    if classify(f) != Class::Functional {
        return;
    }
    use crate::onvec::{build_open, seg_sf};
    use open_hypergraphs::array::vec::VecArray;
    let k = f.s.len();
    let sf_ = build_open(f);
    if !f.edges.is_empty() {
        loc.nontrivial();
    }
    loc.outcome(&(f.edges.len(), f.edges.iter().filter(|e| e.src.is_empty()).count()));
    for vi in 0..2u64.pow(k as u32) {
        let inputs: Vec<u64> = (0..k).map(|p| 1 + ((vi >> p) & 1) * 2 + p as u64).collect();
        let (exp, _) = reference_eval(f, &inputs);
        loc.trans(1);
        let r = catch(|| {
            open_hypergraphs::strict::eval::eval(&sf_, VecArray(inputs.clone()), |labels, args| {
                let outs: Vec<Vec<u64>> = labels.0.iter().zip(args.iter()).map(|(l, a)| interp(l, a)).collect();
                // an interpreter that silently loses an operation would produce too few output lists
                seg_sf(&outs)
            })
            .map(|a| a.0)
        });
        match r {
            Ok(Some(o)) if o == exp => {}
            other => loc.violation("eval-with-iter-interpreter:wrong", json!({"diagram": f, "inputs": inputs, "got": format!("{:?}", other), "expected": exp})),
        }
    }
}
