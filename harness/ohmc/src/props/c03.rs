//! C03 — symmetric monoidal category laws up to genuine isomorphism.
use crate::ops::*;
use ohmc_core::explore::*;
use ohmc_core::iso::iso;
use ohmc_core::plain::*;
use serde_json::{json, Value};
use std::collections::HashMap;

type P = POpen<u8, u8>;

/// index a universe by source type
pub fn by_source(u: &[P]) -> HashMap<Vec<u8>, Vec<usize>> {
    let mut m: HashMap<Vec<u8>, Vec<usize>> = HashMap::new();
    for (i, x) in u.iter().enumerate() {
        m.entry(x.source_type()).or_default().push(i);
    }
    m
}

fn report(loc: &mut Local, law: &str, l: Res<Option<P>>, r: Res<Option<P>>, case: Value) {
    match (l, r) {
        (Ok(Some(l)), Ok(Some(r))) => {
            if !iso(&l, &r) {
                loc.violation(&format!("law-fails:{}", law), json!({"law": law, "case": case, "left": l, "right": r}));
            }
            loc.outcome(&(law, l.nodes.len(), l.edges.len(), l.s.len(), l.t.len()));
        }
        (Err(e), _) | (_, Err(e)) => loc.violation(&format!("{}:{}", law, e.kind()), json!({"law": law, "case": case, "failure": e.msg()})),
        (l, r) => loc.violation(&format!("law-undefined:{}", law), json!({"law": law, "case": case, "left": format!("{:?}", l), "right": format!("{:?}", r)})),
    }
}

fn comp<B: StrictOps>(f: &Res<Option<P>>, g: &Res<Option<P>>) -> Res<Option<P>> {
    match (f, g) {
        (Ok(Some(f)), Ok(Some(g))) => B::compose(f, g),
        (Err(e), _) | (_, Err(e)) => Err(e.clone()),
        _ => Ok(None),
    }
}
fn tens<B: StrictOps>(f: &Res<Option<P>>, g: &Res<Option<P>>) -> Res<Option<P>> {
    match (f, g) {
        (Ok(Some(f)), Ok(Some(g))) => {
            // the laws are stated for "the" tensor: the trait method and the | operator must be the same function
            let (a, b) = (B::tensor(f, g)?, B::tensor_bitor(f, g)?);
            if a != b {
                return Err(Fail::Malformed(format!("LAW INSTANCE USES TWO DIFFERENT TENSORS: tensor(f, g) = {:?} but f | g = {:?}", a, b)));
            }
            Ok(Some(a))
        }
        (Err(e), _) | (_, Err(e)) => Err(e.clone()),
        _ => Ok(None),
    }
}
fn just(p: &P) -> Res<Option<P>> {
    Ok(Some(p.clone()))
}
fn idn<B: StrictOps>(w: &[u8]) -> Res<Option<P>> {
    B::identity::<u8, u8>(w).map(Some)
}
fn tw<B: StrictOps>(a: &[u8], b: &[u8]) -> Res<Option<P>> {
    B::twist::<u8, u8>(a, b).map(Some)
}

/// associativity over all composable triples starting at f = u[i]
pub fn check_assoc_from<B: StrictOps>(u: &[P], idx: &HashMap<Vec<u8>, Vec<usize>>, i: usize, loc: &mut Local) {
    let f = &u[i];
    let empty = vec![];
    for &j in idx.get(&f.target_type()).unwrap_or(&empty) {
        let g = &u[j];
        let fg = B::compose(f, g);
        loc.trans(1);
        for &k in idx.get(&g.target_type()).unwrap_or(&empty) {
            let h = &u[k];
            loc.more_cases(1);
            let l = comp::<B>(&fg, &just(h));
            let r = comp::<B>(&just(f), &B::compose(g, h));
            loc.trans(3);
            if !f.t.is_empty() && !g.t.is_empty() && f.edges.len() + g.edges.len() + h.edges.len() >= 2 {
                loc.nontrivial_sub();
            }
            report(loc, "assoc", l, r, json!({"f": f, "g": g, "h": h}));
        }
    }
}

pub fn check_identity<B: StrictOps>(f: &P, loc: &mut Local) {
    let (a, b) = (f.source_type(), f.target_type());
    report(loc, "id-left", comp::<B>(&idn::<B>(&a), &just(f)), just(f), json!({"f": f}));
    report(loc, "id-right", comp::<B>(&just(f), &idn::<B>(&b)), just(f), json!({"f": f}));
    loc.trans(4);
    if !f.s.is_empty() || !f.t.is_empty() {
        loc.nontrivial();
    }
    loc.sample(|| json!({"f": f}));
}

/// interchange for the composable pair (f1,g1) against all composable pairs (f2,g2)
pub fn check_interchange<B: StrictOps>(pairs: &[(P, P)], i: usize, loc: &mut Local) {
    let (f1, g1) = &pairs[i];
    let c1 = B::compose(f1, g1);
    for (f2, g2) in pairs.iter() {
        loc.more_cases(1);
        let l = tens::<B>(&c1, &B::compose(f2, g2));
        let r = comp::<B>(&tens::<B>(&just(f1), &just(f2)), &tens::<B>(&just(g1), &just(g2)));
        loc.trans(5);
        if !f1.t.is_empty() && !f2.t.is_empty() {
            loc.nontrivial_sub();
        }
        report(loc, "interchange", l, r, json!({"f1": f1, "g1": g1, "f2": f2, "g2": g2}));
    }
}

/// naturality of the symmetry in both arguments: (f ⊗ g) ; σ_{B,D} ≅ σ_{A,C} ; (g ⊗ f)
pub fn check_twist_natural<B: StrictOps>(f: &P, g: &P, loc: &mut Local) {
    let (a, b, c, d) = (f.source_type(), f.target_type(), g.source_type(), g.target_type());
    let l = comp::<B>(&tens::<B>(&just(f), &just(g)), &tw::<B>(&b, &d));
    let r = comp::<B>(&tw::<B>(&a, &c), &tens::<B>(&just(g), &just(f)));
    loc.trans(6);
    if (!a.is_empty() || !b.is_empty()) && (!c.is_empty() || !d.is_empty()) {
        loc.nontrivial();
    }
    report(loc, "twist-natural", l, r, json!({"f": f, "g": g}));
    loc.sample(|| json!({"f": f, "g": g}));
}

/// self-inverse, hexagons, unit coherence of the symmetry for object lists a, b, c
pub fn check_symmetry_laws<B: StrictOps>(a: &[u8], b: &[u8], c: &[u8], loc: &mut Local) {
    let cat = |x: &[u8], y: &[u8]| -> Vec<u8> { x.iter().chain(y.iter()).cloned().collect() };
    let case = json!({"a": a, "b": b, "c": c});
    // σ_{a,b} ; σ_{b,a} = id
    report(loc, "twist-self-inverse", comp::<B>(&tw::<B>(a, b), &tw::<B>(b, a)), idn::<B>(&cat(a, b)), case.clone());
    // hexagon 1: σ_{a, b●c} = (σ_{a,b} ⊗ id_c) ; (id_b ⊗ σ_{a,c})
    report(
        loc,
        "hexagon-1",
        tw::<B>(a, &cat(b, c)),
        comp::<B>(&tens::<B>(&tw::<B>(a, b), &idn::<B>(c)), &tens::<B>(&idn::<B>(b), &tw::<B>(a, c))),
        case.clone(),
    );
    // hexagon 2: σ_{a●b, c} = (id_a ⊗ σ_{b,c}) ; (σ_{a,c} ⊗ id_b)
    report(
        loc,
        "hexagon-2",
        tw::<B>(&cat(a, b), c),
        comp::<B>(&tens::<B>(&idn::<B>(a), &tw::<B>(b, c)), &tens::<B>(&tw::<B>(a, c), &idn::<B>(b))),
        case.clone(),
    );
    // σ_{a,I} = id_a = σ_{I,a}
    report(loc, "twist-unit-right", tw::<B>(a, &[]), idn::<B>(a), case.clone());
    report(loc, "twist-unit-left", tw::<B>(&[], a), idn::<B>(a), case.clone());
    // the symmetry has the promised type and is the reference symmetry
    report(loc, "twist-is-the-symmetry", tw::<B>(a, b), just(&P::twist(a, b)), case);
    loc.trans(20);
    if !a.is_empty() && !b.is_empty() {
        loc.nontrivial();
    }
    loc.sample(|| json!({"a": a, "b": b, "c": c}));
}

pub fn check_assoc_triple<B: StrictOps>(f: &P, g: &P, h: &P, loc: &mut Local) {
    let l = comp::<B>(&B::compose(f, g), &just(h));
    let r = comp::<B>(&just(f), &B::compose(g, h));
    loc.trans(4);
    loc.nontrivial();
    report(loc, "assoc", l, r, json!({"f": f, "g": g, "h": h}));
}

// ---- the same laws in the lax representation ------------------------------------------------------
// Results of lax operations (which carry pending unifications) are fed into further lax operations
// WITHOUT quotienting in between; both sides are strictified at the end and compared up to isomorphism.

use crate::laxconv::*;
use open_hypergraphs::category::{Arrow, Monoidal, SymmetricMonoidal};

type LO = LOpen<u8, u8>;

fn lax_strict(x: &Option<LO>) -> Result<Option<P>, String> {
    match x {
        None => Ok(None),
        Some(l) => catch(|| l.clone().to_strict()).and_then(|s| crate::onvec::decode_open(&s)).map(Some),
    }
}

fn lax_report(loc: &mut Local, law: &str, l: Result<Option<LO>, String>, r: Result<Option<LO>, String>, case: Value) {
    let (l, r) = match (l, r) {
        (Ok(l), Ok(r)) => (lax_strict(&l), lax_strict(&r)),
        (Err(p), _) | (_, Err(p)) => return loc.violation(&format!("lax-{}:panic", law), json!({"law": law, "case": case, "panic": p})),
    };
    match (l, r) {
        (Ok(Some(l)), Ok(Some(r))) => {
            if !iso(&l, &r) {
                loc.violation(&format!("lax-law-fails:{}", law), json!({"law": law, "case": case, "left": l, "right": r}));
            }
            loc.outcome(&("lax", law, l.nodes.len(), l.edges.len()));
        }
        (Ok(None), Ok(None)) => {}
        (l, r) => loc.violation(&format!("lax-law-undefined:{}", law), json!({"law": law, "case": case, "left": format!("{:?}", l), "right": format!("{:?}", r)})),
    }
}

pub fn check_lax_laws(f: &PLax<u8, u8>, g: &PLax<u8, u8>, h: &PLax<u8, u8>, loc: &mut Local) {
    let (lf, lg, lh) = (build_lax(f), build_lax(g), build_lax(h));
    let case = json!({"f": f, "g": g, "h": h});
    loc.trans(6);
    // associativity (when the types chain)
    if f.open.target_type() == g.open.source_type() && g.open.target_type() == h.open.source_type() {
        let l = catch(|| Arrow::compose(&lf, &lg).and_then(|fg| Arrow::compose(&fg, &lh)));
        let r = catch(|| Arrow::compose(&lg, &lh).and_then(|gh| Arrow::compose(&lf, &gh)));
        lax_report(loc, "assoc", l.clone(), r.clone(), case.clone());
        // the same with the inner composite quotiented (normalised) before it is composed again, on either side
        let norm = |x: Option<LO>| -> Option<LO> {
            x.and_then(|mut c| match c.quotient() {
                Ok(_) => Some(c),
                Err(_) => None,
            })
        };
        let ln = catch(|| norm(Arrow::compose(&lf, &lg)).and_then(|fg| Arrow::compose(&fg, &lh)));
        let rn = catch(|| norm(Arrow::compose(&lg, &lh)).and_then(|gh| Arrow::compose(&lf, &gh)));
        lax_report(loc, "assoc-normalised-inner-composites", ln.clone(), rn.clone(), case.clone());
        lax_report(loc, "assoc-raw-left-normalised-right", l, rn, case.clone());
        lax_report(loc, "assoc-normalised-left-raw-right", ln, r, case.clone());
        loc.nontrivial();
    }
    // interchange: (f;g) tensor (g;h)-like pairs when both chains exist: (f;g) | h  vs  (f|h1);(g|h2) with h = h;id
    if f.open.target_type() == g.open.source_type() {
        let idh = catch(|| <LO as Arrow>::identity(h.open.target_type()));
        if let Ok(idh) = idh {
            let l = catch(|| Arrow::compose(&lf, &lg).map(|fg| Monoidal::tensor(&fg, &lh)));
            let r = catch(|| Arrow::compose(&Monoidal::tensor(&lf, &lh), &Monoidal::tensor(&lg, &idh)));
            lax_report(loc, "interchange", l, r, case.clone());
        }
        // unit laws on a composite
        let ida = catch(|| <LO as Arrow>::identity(f.open.source_type()));
        if let Ok(ida) = ida {
            let l = catch(|| Arrow::compose(&lf, &lg).and_then(|fg| Arrow::compose(&ida, &fg)));
            let r = catch(|| Arrow::compose(&lf, &lg));
            lax_report(loc, "id-left-on-composite", l, r, case.clone());
        }
    }
    // naturality of the lax symmetry: (f | h) ; twist(B, D) = twist(A, C) ; (h | f)
    let (a, b, c, d) = (f.open.source_type(), f.open.target_type(), h.open.source_type(), h.open.target_type());
    let l = catch(|| Arrow::compose(&Monoidal::tensor(&lf, &lh), &<LO as SymmetricMonoidal>::twist(b.clone(), d.clone())));
    let r = catch(|| Arrow::compose(&<LO as SymmetricMonoidal>::twist(a.clone(), c.clone()), &Monoidal::tensor(&lh, &lf)));
    lax_report(loc, "twist-natural", l, r, case.clone());
    // self-inverse
    let l = catch(|| Arrow::compose(&<LO as SymmetricMonoidal>::twist(a.clone(), b.clone()), &<LO as SymmetricMonoidal>::twist(b.clone(), a.clone())));
    let r = catch(|| Some(<LO as Arrow>::identity(a.iter().chain(b.iter()).cloned().collect())));
    lax_report(loc, "twist-self-inverse", l, r, case);
}
