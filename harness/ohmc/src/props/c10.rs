//! C10 — lax and strict representations agree and convert losslessly.
use crate::laxconv::*;
use crate::onvec::{build_open, decode_open, B};
use crate::ops::StrictOps;
use ohmc_core::explore::*;
use ohmc_core::iso::iso;
use ohmc_core::plain::*;
use open_hypergraphs::array::vec::{VecArray, VecKind};
use open_hypergraphs::category::*;
use open_hypergraphs::strict::vec::FiniteFunction as VFF;
use serde_json::{json, Value};

type P = POpen<u8, u8>;
type L = PLax<u8, u8>;

/// strictify a real lax object through the real to_strict
fn real_strict(l: &LOpen<u8, u8>) -> Result<P, String> {
    match catch(|| l.clone().to_strict()) {
        Err(p) => Err(format!("to_strict panicked: {}", p)),
        Ok(s) => decode_open(&s).map_err(|m| format!("to_strict returned a malformed diagram: {}", m)),
    }
}

pub fn check_roundtrip_strict(x: &P, loc: &mut Local) {
    loc.trans(2);
    let sx = build_open(x);
    match catch(|| LOpen::from_strict(sx)).map(|l| (decode_lax(&l), l)) {
        Err(p) => loc.violation("from_strict:panic", json!({"x": x, "panic": p})),
        Ok((Err(m), _)) => loc.violation("from_strict:malformed-output", json!({"x": x, "why": m})),
        Ok((Ok(pl), l)) => {
            if pl != L::strict(x.clone()) {
                loc.violation("from_strict:changed-the-diagram", json!({"x": x, "got": pl}));
            }
            match real_strict(&l) {
                Ok(back) if back == *x => {}
                other => loc.violation("strict->lax->strict:not-identity", json!({"x": x, "got": format!("{:?}", other)})),
            }
        }
    }
    // and lax -> strict -> lax on the quotient-free lax diagram with the same data
    let l = build_lax(&L::strict(x.clone()));
    match catch(|| LOpen::from_strict(l.clone().to_strict())).map(|b| decode_lax(&b)) {
        Ok(Ok(b)) if b == L::strict(x.clone()) => {}
        other => loc.violation("lax->strict->lax:not-identity", json!({"x": x, "got": format!("{:?}", other)})),
    }
    if !x.edges.is_empty() {
        loc.nontrivial();
    }
    loc.outcome(&(x.nodes.len(), x.edges.len(), x.s.len(), x.t.len()));
    loc.sample(|| json!({"x": x}));
}

fn agree(loc: &mut Local, what: &str, lax_side: Result<P, String>, strict_side: Result<Option<P>, String>, case: &Value) {
    match (lax_side, strict_side) {
        (Ok(l), Ok(Some(s))) => {
            if !iso(&l, &s) {
                loc.violation(&format!("{}:strictification-does-not-commute", what), json!({"op": what, "case": case, "strict_of_lax": l, "strict_op": s}));
            }
            loc.outcome(&(what, l.nodes.len(), l.edges.len()));
        }
        (Err(m), _) => loc.violation(&format!("{}:lax-side-failed", what), json!({"op": what, "case": case, "why": m})),
        (_, Err(m)) => loc.violation(&format!("{}:strict-side-failed", what), json!({"op": what, "case": case, "why": m})),
        (Ok(_), Ok(None)) => loc.violation(&format!("{}:strict-side-undefined", what), json!({"op": what, "case": case})),
    }
}

fn sres(r: crate::ops::Res<Option<P>>) -> Result<Option<P>, String> {
    r.map_err(|e| format!("{}: {}", e.kind(), e.msg()))
}

/// f, g label-consistent lax diagrams
pub fn check_pair(f: &L, g: &L, loc: &mut Local) {
    let case = json!({"f": f, "g": g});
    let (lf, lg) = (build_lax(f), build_lax(g));
    let (sf, sg) = (f.strictify().unwrap(), g.strictify().unwrap());
    let types_match = f.open.target_type() == g.open.source_type();
    let arities_match = f.open.t.len() == g.open.s.len();
    loc.trans(4);
    // compose: defined iff types match
    match catch(|| Arrow::compose(&lf, &lg)) {
        Err(p) => loc.violation("compose:panic", json!({"case": case, "panic": p})),
        Ok(None) => {
            if types_match {
                loc.violation("compose:refused-matching-types", json!({"case": case}));
            }
        }
        Ok(Some(c)) => {
            if !types_match {
                loc.violation("compose:defined-despite-type-mismatch", json!({"case": case}));
            } else {
                agree(loc, "compose", real_strict(&c), sres(B::compose(&sf, &sg)), &case);
                // `>>` is the same operation
                match catch(|| &lf >> &lg) {
                    Ok(Some(c2)) if c2 == c => {}
                    _ => loc.violation("shr-differs-from-compose", json!({"case": case})),
                }
            }
        }
    }
    // the operator form is the checked composition: defined iff the types match
    match catch(|| (&lf >> &lg).is_some()) {
        Ok(d) if d == types_match => {}
        other => loc.violation("shr:definedness-differs-from-compose", json!({"case": case, "got": format!("{:?}", other), "types_match": types_match})),
    }
    // unchecked form: defined iff arities match
    match catch(|| lf.lax_compose(&lg)) {
        Err(p) => loc.violation("lax_compose:panic", json!({"case": case, "panic": p})),
        Ok(None) => {
            if arities_match {
                loc.violation("lax_compose:refused-matching-arities", json!({"case": case}));
            }
        }
        Ok(Some(c)) => {
            if !arities_match {
                loc.violation("lax_compose:defined-despite-arity-mismatch", json!({"case": case}));
            } else if types_match {
                agree(loc, "lax_compose", real_strict(&c), sres(B::compose(&sf, &sg)), &case);
            } else if let Err(m) = decode_lax(&c) {
                loc.violation("lax_compose:malformed-output", json!({"case": case, "why": m}));
            }
        }
    }
    // tensor
    match catch(|| Monoidal::tensor(&lf, &lg)) {
        Err(p) => loc.violation("tensor:panic", json!({"case": case, "panic": p})),
        Ok(t) => {
            agree(loc, "tensor", real_strict(&t), sres(B::tensor(&sf, &sg).map(Some)), &case);
            // in-place forms produce exactly the same data
            let pure = decode_lax(&t);
            let mut a = lf.clone();
            let r = catch(|| a.tensor_assign(lg.clone()));
            if r.is_err() || decode_lax(&a) != pure {
                loc.violation("tensor_assign:differs-from-tensor", json!({"case": case, "got": format!("{:?}", decode_lax(&a))}));
            }
            let mut a2 = lf.clone();
            match catch(|| a2.append(lg.clone())) {
                Err(p) => loc.violation("append:panic", json!({"case": case, "panic": p})),
                Ok((s, tt)) => {
                    let n = f.open.nodes.len();
                    let es: Vec<usize> = g.open.s.iter().map(|v| v + n).collect();
                    let et: Vec<usize> = g.open.t.iter().map(|v| v + n).collect();
                    let ok_ret = un_nid(&s) == es && un_nid(&tt) == et;
                    let ok_state = match (decode_lax(&a2), &pure) {
                        (Ok(d), Ok(p)) => d.open.nodes == p.open.nodes && d.open.edges == p.open.edges && d.quot == p.quot && d.open.s == f.open.s && d.open.t == f.open.t,
                        _ => false,
                    };
                    if !ok_ret || !ok_state {
                        loc.violation("append:wrong", json!({"case": case, "returned": [un_nid(&s), un_nid(&tt)], "state": format!("{:?}", decode_lax(&a2))}));
                    }
                }
            }
            let mut h = lf.hypergraph.clone();
            let r = catch(|| h.coproduct_assign(lg.hypergraph.clone()));
            let ok = match (r, decode_lax_hyper(&h), &pure) {
                (Ok(()), Ok(d), Ok(p)) => d.open.nodes == p.open.nodes && d.open.edges == p.open.edges && d.quot == p.quot,
                _ => false,
            };
            if !ok {
                loc.violation("coproduct_assign:differs-from-coproduct", json!({"case": case}));
            }
        }
    }
    if types_match && (!f.quot.is_empty() || !g.quot.is_empty()) && !f.open.t.is_empty() {
        loc.nontrivial();
    }
    loc.sample(|| case.clone());
}

pub fn check_single(f: &L, loc: &mut Local) {
    let case = json!({"f": f});
    let lf = build_lax(f);
    let sf = f.strictify().unwrap();
    loc.trans(2);
    // dagger
    match catch(|| Spider::<VecKind>::dagger(&lf)) {
        Err(p) => loc.violation("dagger:panic", json!({"case": case, "panic": p})),
        Ok(d) => agree(loc, "dagger", real_strict(&d), sres(B::dagger(&sf).map(Some)), &case),
    }
    // strictification itself agrees with the reference quotient
    match real_strict(&lf) {
        Ok(s) => {
            if !iso(&s, &sf) {
                loc.violation("to_strict:not-the-quotient", json!({"case": case, "got": s, "expected": sf}));
            }
        }
        Err(m) => loc.violation("to_strict:failed", json!({"case": case, "why": m})),
    }
    // aliases and the hypergraph-level conversion: to_open_hypergraph is to_strict; to_hypergraph of the
    // quotiented diagram is the hypergraph part of to_strict
    {
        #[allow(deprecated)]
        let alias = catch(|| lf.clone().to_open_hypergraph()).and_then(|s| decode_open(&s));
        let main = catch(|| lf.clone().to_strict()).and_then(|s| decode_open(&s));
        loc.trans(2);
        if alias != main {
            loc.violation("to_open_hypergraph-differs-from-to_strict", json!({"case": case}));
        }
        let mut q = lf.clone();
        if catch(|| q.quotient().is_ok()) == Ok(true) {
            match (catch(|| q.hypergraph.to_hypergraph()).and_then(|h| crate::onvec::decode_hyper(&h)), &main) {
                (Ok(h), Ok(m)) => {
                    if h.nodes != m.nodes || h.edges != m.edges {
                        loc.violation("to_hypergraph-differs-from-to_strict", json!({"case": case, "got": h, "expected": m}));
                    }
                }
                (other, _) => loc.violation("to_hypergraph:failed", json!({"case": case, "got": format!("{:?}", other)})),
            }
        }
    }
    if !f.quot.is_empty() {
        loc.nontrivial();
    }
}

/// identity, twist, singleton on object lists; spider on cospans
pub fn check_constructors(a: &[u8], b: &[u8], loc: &mut Local) {
    let case = json!({"a": a, "b": b});
    loc.trans(3);
    match catch(|| <LOpen<u8, u8> as Arrow>::identity(a.to_vec())) {
        Err(p) => loc.violation("identity:panic", json!({"case": case, "panic": p})),
        Ok(i) => agree(loc, "identity", real_strict(&i), sres(B::identity::<u8, u8>(a).map(Some)), &case),
    }
    match catch(|| <LOpen<u8, u8> as SymmetricMonoidal>::twist(a.to_vec(), b.to_vec())) {
        Err(p) => loc.violation("twist:panic", json!({"case": case, "panic": p})),
        Ok(t) => agree(loc, "twist", real_strict(&t), sres(B::twist::<u8, u8>(a, b).map(Some)), &case),
    }
    for x in 0..2u8 {
        match catch(|| LOpen::<u8, u8>::singleton(x, a.to_vec(), b.to_vec())) {
            Err(p) => loc.violation("singleton:panic", json!({"case": case, "panic": p})),
            Ok(s) => agree(loc, "singleton", real_strict(&s), sres(B::singleton(x, a, b).map(Some)), &case),
        }
    }
    loc.nontrivial();
}

pub fn check_spider(c: &P, loc: &mut Local) {
    let case = json!({"cospan": c});
    let n = c.nodes.len();
    loc.trans(1);
    let (s, t) = (VFF { table: VecArray(c.s.clone()), target: n }, VFF { table: VecArray(c.t.clone()), target: n });
    match catch(|| <LOpen<u8, u8> as Spider<VecKind>>::spider(s, t, c.nodes.clone())) {
        Err(p) => loc.violation("spider:panic", json!({"case": case, "panic": p})),
        Ok(None) => loc.violation("spider:refused", json!({"case": case})),
        Ok(Some(l)) => agree(loc, "spider", real_strict(&l), sres(B::spider::<u8, u8>((&c.s, n), (&c.t, n), &c.nodes, true)), &case),
    }
    loc.nontrivial();
}
