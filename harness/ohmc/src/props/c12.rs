//! C12 — functor application is generator-wise substitution. C13 — the native lax path.
use crate::laxconv::*;
use crate::onvec::decode_open;
use crate::ops::*;
use crate::tf::TF;
use ohmc_core::explore::*;
use ohmc_core::iso::iso;
use ohmc_core::plain::*;
use open_hypergraphs::lax::functor::{dyn_functor, map_arrow_witness, try_define_map_arrow, Functor as LaxFunctor};
use serde_json::json;

type P = POpen<u8, u8>;
type L = PLax<u8, u8>;

/// the test functor as an implementation of the lax `Functor` trait
#[derive(Clone)]
pub struct LaxTF(pub TF);

impl LaxFunctor<u8, u8, u8, u8> for LaxTF {
    fn map_object(&self, o: &u8) -> impl ExactSizeIterator<Item = u8> {
        self.0.obj(*o).into_iter()
    }
    fn map_operation(&self, a: &u8, source: &[u8], target: &[u8]) -> LOpen<u8, u8> {
        build_lax(&self.0.image(*a, source, target))
    }
    fn map_arrow(&self, f: &LOpen<u8, u8>) -> LOpen<u8, u8> {
        dyn_functor::define_map_arrow(self, f)
    }
}

fn strictify_real(l: &LOpen<u8, u8>) -> Result<P, String> {
    match catch(|| l.clone().to_strict()) {
        Err(p) => Err(format!("to_strict panicked: {}", p)),
        Ok(s) => decode_open(&s),
    }
}

pub fn check_strict<B: StrictOps>(f: &P, tf: TF, loc: &mut Local) {
    let expected = tf.substitute(f);
    loc.trans(1);
    match B::functor_apply(f, tf) {
        Err(e) => loc.violation(&format!("functor:{}", e.kind()), json!({"f": f, "functor": tf, "failure": e.msg(), "backend": B::NAME})),
        Ok(r) => {
            if r.source_type() != tf.objs(&f.source_type()) || r.target_type() != tf.objs(&f.target_type()) {
                loc.violation("functor:wrong-type", json!({"f": f, "functor": tf, "got": r}));
            } else if !iso(&r, &expected) {
                loc.violation("functor:not-the-substitution", json!({"f": f, "functor": tf, "got": r, "expected": expected, "backend": B::NAME}));
            }
            loc.outcome(&(tf.recipe, r.nodes.len(), r.edges.len(), r.s.len(), r.t.len()));
        }
    }
    if !f.edges.is_empty() && tf.n != [1, 1, 1] {
        loc.nontrivial_sub();
    }
}

/// the lax trait through dyn_functor::define_map_arrow
pub fn check_dyn(f: &P, tf: TF, loc: &mut Local) {
    let expected = tf.substitute(f);
    let lf = build_lax(&L::strict(f.clone()));
    loc.trans(1);
    match catch(|| LaxTF(tf).map_arrow(&lf)) {
        Err(p) => loc.violation("dyn-functor:panic", json!({"f": f, "functor": tf, "panic": p})),
        Ok(r) => match strictify_real(&r) {
            Err(m) => loc.violation("dyn-functor:malformed-output", json!({"f": f, "functor": tf, "why": m})),
            Ok(r) => {
                if !iso(&r, &expected) {
                    loc.violation("dyn-functor:not-the-substitution", json!({"f": f, "functor": tf, "got": r, "expected": expected}));
                }
            }
        },
    }
    // the same through the explicit adapter and through the deprecated re-export
    {
        use open_hypergraphs::strict::functor::Functor as StrictFunctor;
        let adapted = dyn_functor::to_dyn_functor(LaxTF(tf));
        let sf = crate::onvec::build_open(f);
        loc.trans(2);
        match catch(|| adapted.map_arrow(&sf)).and_then(|r| decode_open(&r)) {
            Ok(r) if iso(&r, &expected) => {}
            other => loc.violation("to_dyn_functor:not-the-substitution", json!({"f": f, "functor": tf, "got": format!("{:?}", other)})),
        }
        #[allow(deprecated)]
        let shim = catch(|| open_hypergraphs::lax::functor::define_map_arrow(&LaxTF(tf), &lf)).and_then(|r| strictify_real(&r));
        match shim {
            Ok(r) if iso(&r, &expected) => {}
            other => loc.violation("deprecated-define_map_arrow:not-the-substitution", json!({"f": f, "functor": tf, "got": format!("{:?}", other)})),
        }
    }
    if !f.edges.is_empty() {
        loc.nontrivial_sub();
    }
}

pub fn check_identity_functors<B: StrictOps>(f: &P, loc: &mut Local) {
    loc.trans(2);
    match B::identity_functor(f) {
        Err(e) => loc.violation(&format!("identity-functor:{}", e.kind()), json!({"f": f, "failure": e.msg()})),
        Ok(r) => {
            if !iso(&r, f) {
                loc.violation("identity-functor:result-not-isomorphic-to-argument", json!({"f": f, "got": r}));
            }
        }
    }
    let lf = build_lax(&L::strict(f.clone()));
    match catch(|| dyn_functor::Identity.map_arrow(&lf)).map(|r| strictify_real(&r)) {
        Ok(Ok(r)) if iso(&r, f) => {}
        other => loc.violation("lax-identity-functor:result-not-isomorphic-to-argument", json!({"f": f, "got": format!("{:?}", other)})),
    }
    if !f.edges.is_empty() {
        loc.nontrivial();
    }
    loc.outcome(&(f.nodes.len(), f.edges.len()));
    loc.sample(|| json!({"f": f}));
}

/// functoriality on a pair: composition (when defined), tensor; on one: dagger
pub fn check_functoriality<B: StrictOps>(f: &P, g: &P, tf: TF, loc: &mut Local) {
    let ap = |x: &P| B::functor_apply(x, tf);
    let case = || json!({"f": f, "g": g, "functor": tf});
    let mut cmp = |law: &str, l: Res<P>, r: Res<P>, loc: &mut Local| match (l, r) {
        (Ok(l), Ok(r)) => {
            if !iso(&l, &r) {
                loc.violation(&format!("functoriality:{}", law), json!({"case": case(), "left": l, "right": r}));
            }
        }
        (Err(e), _) | (_, Err(e)) => loc.violation(&format!("functoriality:{}:{}", law, e.kind()), json!({"case": case(), "failure": e.msg()})),
    };
    loc.trans(8);
    if f.target_type() == g.source_type() {
        let l = B::compose(f, g).and_then(|c| match c {
            Some(c) => ap(&c),
            None => Err(Fail::Malformed("compose refused matching types".into())),
        });
        let r = ap(f).and_then(|a| ap(g).and_then(|b| B::compose(&a, &b).and_then(|c| c.ok_or(Fail::Malformed("F(f);F(g) is undefined: the images have the wrong types".into())))));
        cmp("composition", l, r, loc);
        loc.nontrivial_sub();
    }
    let l = B::tensor(f, g).and_then(|c| ap(&c));
    let r = ap(f).and_then(|a| ap(g).and_then(|b| B::tensor(&a, &b)));
    cmp("tensor", l, r, loc);
    let l = B::dagger(f).and_then(|c| ap(&c));
    let r = ap(f).and_then(|a| B::dagger(&a));
    cmp("dagger", l, r, loc);
}

pub fn check_functor_units<B: StrictOps>(a: &[u8], b: &[u8], tf: TF, loc: &mut Local) {
    loc.trans(4);
    let case = json!({"a": a, "b": b, "functor": tf});
    let l = B::identity::<u8, u8>(a).and_then(|i| B::functor_apply(&i, tf));
    let r = B::identity::<u8, u8>(&tf.objs(a));
    match (l, r) {
        (Ok(l), Ok(r)) if iso(&l, &r) => {}
        other => loc.violation("functoriality:identity", json!({"case": case, "got": format!("{:?}", other)})),
    }
    let l = B::twist::<u8, u8>(a, b).and_then(|i| B::functor_apply(&i, tf));
    let r = B::twist::<u8, u8>(&tf.objs(a), &tf.objs(b));
    match (l, r) {
        (Ok(l), Ok(r)) if iso(&l, &r) => {}
        other => loc.violation("functoriality:symmetry", json!({"case": case, "got": format!("{:?}", other)})),
    }
    loc.nontrivial();
}

// ---- C13 ---------------------------------------------------------------------------------------

pub fn check_native(f: &P, tf: TF, loc: &mut Local) {
    let expected = tf.substitute(f);
    let lf = build_lax(&L::strict(f.clone()));
    let case = || json!({"f": f, "functor": tf});
    loc.trans(3);
    // native image
    let native = match catch(|| try_define_map_arrow(&LaxTF(tf), &lf)) {
        Err(p) => return loc.violation("native:panic", json!({"case": case(), "panic": p})),
        Ok(None) => return loc.violation("native:refused-quotient-free-diagram", json!({"case": case()})),
        Ok(Some(r)) => r,
    };
    if let Err(m) = decode_lax(&native) {
        return loc.violation("native:malformed-output", json!({"case": case(), "why": m}));
    }
    let native_strict = match strictify_real(&native) {
        Ok(s) => s,
        Err(m) => return loc.violation("native:cannot-be-quotiented", json!({"case": case(), "why": m})),
    };
    if !iso(&native_strict, &expected) {
        loc.violation("native:not-the-substitution", json!({"case": case(), "got": native_strict, "expected": expected}));
    }
    // agrees with the strict path
    match catch(|| LaxTF(tf).map_arrow(&lf)).map(|r| strictify_real(&r)) {
        Ok(Ok(d)) => {
            if !iso(&native_strict, &d) {
                loc.violation("native:differs-from-strict-path", json!({"case": case(), "native": native_strict, "strict_path": d}));
            }
        }
        other => loc.violation("native:strict-path-failed", json!({"case": case(), "got": format!("{:?}", other)})),
    }
    // witness
    match catch(|| map_arrow_witness(&LaxTF(tf), &lf)) {
        Err(p) => loc.violation("witness:panic", json!({"case": case(), "panic": p})),
        Ok(None) => loc.violation("witness:refused-quotient-free-diagram", json!({"case": case()})),
        Ok(Some((res, wit))) => {
            let why = (|| -> Result<(), String> {
                let pre = decode_lax(&res)?;
                if decode_lax(&native)? != pre {
                    return Err("map_arrow_witness returns a different diagram than try_define_map_arrow".into());
                }
                let segs = crate::onvec::decode_seg(&wit, "witness")?;
                if wit.values.target != pre.open.nodes.len() {
                    return Err(format!("witness codomain {} but the result has {} nodes", wit.values.target, pre.open.nodes.len()));
                }
                if segs.len() != f.nodes.len() {
                    return Err(format!("{} witness segments for {} input nodes", segs.len(), f.nodes.len()));
                }
                for (v, sg) in segs.iter().enumerate() {
                    let want = tf.obj(f.nodes[v]);
                    let got: Vec<u8> = sg.iter().map(|&i| pre.open.nodes[i]).collect();
                    if got != want {
                        return Err(format!("input node {} (label {}) is related to nodes labelled {:?}, expected F(label) = {:?}", v, f.nodes[v], got, want));
                    }
                }
                // push the input interfaces through witness and quotient
                let mut r2 = res.clone();
                let q = match r2.quotient() {
                    Ok(q) => q.table.0,
                    Err(_) => return Err("the result cannot be quotiented".into()),
                };
                let post = decode_lax(&r2)?;
                let push = |ifc: &Vec<usize>| -> Vec<usize> { ifc.iter().flat_map(|&v| segs[v].iter().map(|&i| q[i])).collect() };
                if push(&f.s) != post.open.s || push(&f.t) != post.open.t {
                    return Err(format!("input interfaces pushed through witness and quotient give {:?}/{:?} but the output interfaces are {:?}/{:?}", push(&f.s), push(&f.t), post.open.s, post.open.t));
                }
                Ok(())
            })();
            if let Err(m) = why {
                loc.violation("witness:wrong", json!({"case": case(), "why": m}));
            }
        }
    }
    if !f.nodes.is_empty() && tf.n != [1, 1, 1] {
        loc.nontrivial_sub();
    }
    loc.outcome(&(tf.recipe, native_strict.nodes.len(), native_strict.edges.len()));
}

/// refusal: a diagram with a pending unification
pub fn check_refusal(l: &L, tf: TF, loc: &mut Local) {
    let lf = build_lax(l);
    loc.trans(2);
    match catch(|| (try_define_map_arrow(&LaxTF(tf), &lf).is_some(), map_arrow_witness(&LaxTF(tf), &lf).is_some())) {
        Err(p) => loc.violation("refusal:panic", json!({"diagram": l, "functor": tf, "panic": p})),
        Ok((a, b)) => {
            if a || b {
                loc.violation("native-path-accepts-pending-unifications", json!({"diagram": l, "functor": tf, "try_define_map_arrow": a, "map_arrow_witness": b}));
            }
        }
    }
    loc.nontrivial_sub();
}

/// A strict functor on the Vec backend whose `map_operations` reads the batch the way user code does: through
/// the borrowing iterator `Operations::iter()`.
pub struct IterFunctor(pub TF);

impl open_hypergraphs::strict::functor::Functor<open_hypergraphs::array::vec::VecKind, u8, u8, u8, u8> for IterFunctor {
    fn map_object(&self, a: &crate::onvec::SF<u8>) -> crate::onvec::IC<crate::onvec::SF<u8>> {
        crate::onvec::seg_sf(&a.0 .0.iter().map(|&l| self.0.obj(l)).collect::<Vec<_>>())
    }
    fn map_operations(&self, ops: open_hypergraphs::operations::Operations<open_hypergraphs::array::vec::VecKind, u8, u8>) -> crate::onvec::SOpen<u8, u8> {
        let mut acc = P::empty();
        for (x, a, b) in ops.iter() {
            acc = acc.tensor(&self.0.image_strict(*x, a, b));
        }
        crate::onvec::build_open(&acc)
    }
    fn map_arrow(&self, f: &crate::onvec::SOpen<u8, u8>) -> crate::onvec::SOpen<u8, u8> {
        open_hypergraphs::strict::functor::define_map_arrow(self, f)
    }
}

pub fn check_iter_functor(f: &P, tf: TF, loc: &mut Local) {
    use open_hypergraphs::strict::functor::Functor as _;
    let expected = tf.substitute(f);
    let sf = crate::onvec::build_open(f);
    loc.trans(1);
    match catch(|| IterFunctor(tf).map_arrow(&sf)).and_then(|r| decode_open(&r)) {
        Ok(r) if iso(&r, &expected) => {}
        other => loc.violation("functor-reading-Operations::iter:not-the-substitution", json!({"f": f, "functor": tf, "got": format!("{:?}", other)})),
    }
    if f.edges.iter().any(|e| e.src.len() != e.tgt.len()) {
        loc.nontrivial_sub();
    }
}

/// lax diagrams WITH pending unifications: the image through the lax trait must be the substitution of the
/// strictified diagram; the native entry point may refuse, but if it returns an image it must be that one too
pub fn check_pending<Bk: StrictOps>(l: &L, tf: TF, loc: &mut Local) {
    let strict = match l.strictify() {
        Some(s) => s,
        None => return,
    };
    let expected = tf.substitute(&strict);
    let lf = build_lax(l);
    loc.trans(2);
    match catch(|| LaxTF(tf).map_arrow(&lf)).and_then(|r| strictify_real(&r)) {
        Ok(r) if iso(&r, &expected) => {}
        other => loc.violation("dyn-functor-on-pending-unifications:not-the-substitution", json!({"diagram": l, "functor": tf, "got": format!("{:?}", other), "expected": expected})),
    }
    match catch(|| try_define_map_arrow(&LaxTF(tf), &lf)) {
        Err(p) => loc.violation("native-on-pending-unifications:panic", json!({"diagram": l, "functor": tf, "panic": p})),
        Ok(None) => {}
        Ok(Some(r)) => match strictify_real(&r) {
            Ok(r) if iso(&r, &expected) => {}
            other => loc.violation("native-on-pending-unifications:returns-a-wrong-image", json!({"diagram": l, "functor": tf, "got": format!("{:?}", other), "expected": expected})),
        },
    }
    let (_, k) = classes(l.open.nodes.len(), &l.quot);
    if k < l.open.nodes.len() {
        loc.nontrivial_sub();
    }
}
