//! C18 — hypergraph morphism validation, monomorphism and convexity tests are exact.
use crate::ops::*;
use ohmc_core::explore::*;
use ohmc_core::plain::*;
use serde_json::json;

type P = POpen<u8, u8>;

pub struct Conds {
    pub typed_w: bool,
    pub typed_x: bool,
    pub natural_w: bool,
    pub natural_x: bool,
    pub natural_s: bool,
    pub natural_t: bool,
}

/// the documented conditions, by definition on the plain model (a condition that cannot even be
/// stated because of a typing failure counts as failing)
pub fn conditions(g: &P, h: &P, w: (&[usize], usize), x: (&[usize], usize)) -> Conds {
    let typed_w = w.1 == h.nodes.len() && w.0.iter().all(|&v| v < w.1);
    let typed_x = x.1 == h.edges.len() && x.0.iter().all(|&v| v < x.1);
    let natural_w = typed_w && w.0.len() == g.nodes.len() && (0..g.nodes.len()).all(|i| g.nodes[i] == h.nodes[w.0[i]]);
    let natural_x = typed_x && x.0.len() == g.edges.len() && (0..g.edges.len()).all(|e| g.edges[e].label == h.edges[x.0[e]].label);
    let dom_ok = typed_w && typed_x && w.0.len() == g.nodes.len() && x.0.len() == g.edges.len();
    let natural_s = dom_ok && (0..g.edges.len()).all(|e| g.edges[e].src.iter().map(|&v| w.0[v]).collect::<Vec<_>>() == h.edges[x.0[e]].src);
    let natural_t = dom_ok && (0..g.edges.len()).all(|e| g.edges[e].tgt.iter().map(|&v| w.0[v]).collect::<Vec<_>>() == h.edges[x.0[e]].tgt);
    Conds { typed_w, typed_x, natural_w, natural_x, natural_s, natural_t }
}

pub fn injective(t: &[usize]) -> bool {
    (0..t.len()).all(|i| (0..i).all(|j| t[i] != t[j]))
}

/// no directed path between two image nodes passes through a hyperedge outside the image
pub fn convex_ref(h: &P, w: &[usize], x: &[usize]) -> bool {
    let n = h.nodes.len();
    // state (node, used an outside edge)
    let mut seen = vec![[false; 2]; n];
    let mut stack: Vec<(usize, usize)> = vec![];
    for &u in w {
        if !seen[u][0] {
            seen[u][0] = true;
            stack.push((u, 0));
        }
    }
    let mut reached_outside = vec![false; n]; // reached by a path of length >= 1 that used an outside edge
    while let Some((v, used)) = stack.pop() {
        for (ei, e) in h.edges.iter().enumerate() {
            if e.src.contains(&v) {
                let nu = if used == 1 || !x.contains(&ei) { 1 } else { 0 };
                for &t in &e.tgt {
                    if nu == 1 {
                        reached_outside[t] = true;
                    }
                    if !seen[t][nu] {
                        seen[t][nu] = true;
                        stack.push((t, nu));
                    }
                }
            }
        }
    }
    !w.iter().any(|&v| reached_outside[v])
}

pub fn check_arrow<B: StrictOps>(g: &P, h: &P, w: (&[usize], usize), x: (&[usize], usize), loc: &mut Local) {
    let c = conditions(g, h, w, x);
    let valid = c.typed_w && c.typed_x && c.natural_w && c.natural_x && c.natural_s && c.natural_t;
    let case = || json!({"G": g, "H": h, "w": w.0, "w_codomain": w.1, "x": x.0, "x_codomain": x.1, "backend": B::NAME});
    loc.trans(1);
    match B::arrow_new(g, h, w, x) {
        Err(e) => loc.violation(&format!("HypergraphArrow::new:{}", e.kind()), json!({"case": case(), "failure": e.msg()})),
        Ok(Ok(())) => {
            if !valid {
                loc.violation("arrow:accepted-a-non-morphism", json!({"case": case()}));
            }
        }
        Ok(Err(variant)) => {
            if valid {
                loc.violation("arrow:rejected-a-morphism", json!({"case": case(), "variant": variant}));
            } else {
                let really_false = match variant.as_str() {
                    "TypeMismatchW" => !c.typed_w,
                    "TypeMismatchX" => !c.typed_x,
                    "NotNaturalW" => !c.natural_w,
                    "NotNaturalX" => !c.natural_x,
                    "NotNaturalS" => !c.natural_s,
                    "NotNaturalT" => !c.natural_t,
                    _ => false,
                };
                if !really_false {
                    loc.violation("arrow:rejection-names-a-condition-that-holds", json!({"case": case(), "variant": variant}));
                }
            }
        }
    }
    if valid {
        loc.trans(1);
        let mono = injective(w.0) && injective(x.0);
        let convex = mono && convex_ref(h, w.0, x.0);
        match B::arrow_mono_convex(g, h, w, x) {
            Err(e) => loc.violation(&format!("mono/convex:{}", e.kind()), json!({"case": case(), "failure": e.msg()})),
            Ok((m, cv)) => {
                if m != mono {
                    loc.violation("is_monomorphism:wrong", json!({"case": case(), "got": m, "expected": mono}));
                }
                if cv != convex {
                    loc.violation("is_convex_subgraph:wrong", json!({"case": case(), "got": cv, "expected": convex}));
                }
            }
        }
        if !g.edges.is_empty() || !mono {
            loc.nontrivial_sub();
        }
        loc.outcome(&(true, mono, convex));
    } else {
        loc.outcome(&(false, c.typed_w, c.typed_x, c.natural_w, c.natural_x, c.natural_s, c.natural_t));
    }
}

/// all well-typed (and, if `mistyped`, also the neighbouring ill-typed) map pairs between G and H
pub fn check_all_maps<B: StrictOps>(g: &P, h: &P, mistyped: bool, loc: &mut Local) {
    let (gn, ge, hn, he) = (g.nodes.len(), g.edges.len(), h.nodes.len(), h.edges.len());
    let ranges = |d: usize, c: usize| -> Vec<(usize, usize)> {
        if !mistyped {
            return vec![(d, c)];
        }
        let mut v = vec![];
        for dd in d.saturating_sub(1)..=d + 1 {
            for cc in c.saturating_sub(1)..=c + 1 {
                v.push((dd, cc));
            }
        }
        v
    };
    for (wd, wc) in ranges(gn, hn) {
        for wt in ohmc_core::uni::tables(wd, wc) {
            for (xd, xc) in ranges(ge, he) {
                for xt in ohmc_core::uni::tables(xd, xc) {
                    loc.more_cases(1);
                    check_arrow::<B>(g, h, (&wt, wc), (&xt, xc), loc);
                }
            }
        }
    }
    loc.sample(|| json!({"G": g, "H": h}));
}

/// every sub-hypergraph of h (edge subset x node superset of its incidences), included with the
/// sorted and the reversed numbering
/// large hosts: a fixed menu of sub-hypergraphs instead of all of them (all hyperedges; none; the first half;
/// the second half; every other hyperedge; all but the middle one; all but the first; all but the last), each
/// with the required nodes only and with all nodes, in ascending and descending listing order
pub fn check_selected_subgraphs<B: StrictOps>(h: &P, loc: &mut Local) {
    let (n, m) = (h.nodes.len(), h.edges.len());
    let menus: Vec<Vec<usize>> = vec![
        (0..m).collect(),
        vec![],
        (0..m / 2).collect(),
        (m / 2..m).collect(),
        (0..m).step_by(2).collect(),
        (0..m).filter(|&e| e != m / 2).collect(),
        (1..m).collect(),
        (0..m.saturating_sub(1)).collect(),
    ];
    for es in menus {
        let mut req = vec![false; n];
        for &e in &es {
            for &v in h.edges[e].src.iter().chain(h.edges[e].tgt.iter()) {
                req[v] = true;
            }
        }
        for all_nodes in [false, true] {
            let ns: Vec<usize> = (0..n).filter(|&v| all_nodes || req[v]).collect();
            for rev in [false, true] {
                let (mut ns2, mut es2) = (ns.clone(), es.clone());
                if rev {
                    ns2.reverse();
                    es2.reverse();
                }
                let mut local = vec![usize::MAX; n];
                for (k, &v) in ns2.iter().enumerate() {
                    local[v] = k;
                }
                let g = P {
                    nodes: ns2.iter().map(|&v| h.nodes[v]).collect(),
                    edges: es2.iter().map(|&e| PEdge { label: h.edges[e].label, src: h.edges[e].src.iter().map(|&v| local[v]).collect(), tgt: h.edges[e].tgt.iter().map(|&v| local[v]).collect() }).collect(),
                    s: vec![],
                    t: vec![],
                };
                loc.more_cases(1);
                check_arrow::<B>(&g, h, (&ns2, n), (&es2, m), loc);
            }
        }
    }
    loc.sample(|| json!({"H": h}));
}

pub fn check_subgraphs<B: StrictOps>(h: &P, loc: &mut Local) {
    let (n, m) = (h.nodes.len(), h.edges.len());
    for emask in 0..(1u32 << m) {
        let es: Vec<usize> = (0..m).filter(|e| emask >> e & 1 == 1).collect();
        let mut req = vec![false; n];
        for &e in &es {
            for &v in h.edges[e].src.iter().chain(h.edges[e].tgt.iter()) {
                req[v] = true;
            }
        }
        for nmask in 0..(1u32 << n) {
            if (0..n).any(|v| req[v] && nmask >> v & 1 == 0) {
                continue;
            }
            let ns: Vec<usize> = (0..n).filter(|v| nmask >> v & 1 == 1).collect();
            for rev in [false, true] {
                let (mut ns2, mut es2) = (ns.clone(), es.clone());
                if rev {
                    if ns.len() < 2 && es.len() < 2 {
                        continue;
                    }
                    ns2.reverse();
                    es2.reverse();
                }
                let local = |v: usize| ns2.iter().position(|&x| x == v).unwrap();
                let g = P {
                    nodes: ns2.iter().map(|&v| h.nodes[v]).collect(),
                    edges: es2.iter().map(|&e| PEdge { label: h.edges[e].label, src: h.edges[e].src.iter().map(|&v| local(v)).collect(), tgt: h.edges[e].tgt.iter().map(|&v| local(v)).collect() }).collect(),
                    s: vec![],
                    t: vec![],
                };
                loc.more_cases(1);
                check_arrow::<B>(&g, h, (&ns2, n), (&es2, m), loc);
            }
        }
    }
    loc.sample(|| json!({"H": h}));
}
