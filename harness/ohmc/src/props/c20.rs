//! C20 — results do not depend on unspecified choices of the array backend.
//!
//! Every strict-module operation is run on the Vec backend and on `AdvKind` under every choice
//! tape with at most `bound` non-default answers (tie order of argsort, numbering of connected
//! components, row order of sparse_bincount, filler of scatter); results must be isomorphic /
//! identical / equally valid.
use crate::adv::{explore_tapes, Choice};
use crate::ops::*;
use crate::props::c15::layering_ok;
use crate::tf::{PlainOptic, TF};
use ohmc_core::explore::*;
use ohmc_core::iso::iso;
use ohmc_core::plain::*;
use serde_json::{json, Value};
use std::sync::Arc;

type P = POpen<u8, u8>;
type V = crate::onvec::B;
type A = crate::onadv::B;

pub const CAP: u64 = 4096;

fn explore<R: std::fmt::Debug>(loc: &mut Local, what: &str, bound: usize, case: &dyn Fn() -> Value, base: &R, mut run: impl FnMut() -> R, same: impl Fn(&R, &R) -> bool, raw_same: impl Fn(&R, &R) -> bool) {
    let mut tapes = 0u64;
    let mut raw_differs = false;
    let mut points = 0usize;
    let st = explore_tapes(bound, CAP, || run(), |tape: &[u32], r: R, log: &[Choice]| {
        tapes += 1;
        points = points.max(log.len());
        if !raw_same(&r, base) {
            raw_differs = true;
        }
        if !same(&r, base) {
            loc.violation(&format!("backend-dependent:{}", what), json!({"operation": what, "case": case(), "tape": tape, "choice_points": log.iter().map(|c| (c.kind, c.arity, c.taken)).collect::<Vec<_>>(), "vec_backend": format!("{:?}", base), "adversarial_backend": format!("{:?}", r)}));
        }
    });
    if st.diverged > 0 {
        loc.violation("choice-tape-diverged", json!({"operation": what, "case": case()}));
    }
    loc.trans(tapes);
    loc.add("adv-executions", tapes);
    if st.capped {
        loc.add("inputs-with-capped-tape-exploration", 1);
    }
    if raw_differs {
        loc.add("inputs-where-some-tape-changes-the-raw-result", 1);
        loc.nontrivial();
    }
    if points > 0 {
        loc.add("inputs-with-choice-points", 1);
    }
    loc.outcome(&(what, tapes.min(64), points, raw_differs));
}

fn iso_res(a: &Res<Option<P>>, b: &Res<Option<P>>) -> bool {
    match (a, b) {
        (Ok(Some(x)), Ok(Some(y))) => iso(x, y),
        (Ok(None), Ok(None)) => true,
        _ => false, // a failure on either backend is a disagreement worth reporting (Vec failures are C01..C19's business, but then AdvKind must fail too and that is checked by equality below)
    }
}

fn iso_or_same_failure(a: &Res<Option<P>>, b: &Res<Option<P>>) -> bool {
    iso_res(a, b) || (a.is_err() && b.is_err())
}

pub fn check_compose(f: &P, g: &P, bound: usize, loc: &mut Local) {
    let base = V::compose(f, g);
    explore(loc, "compose", bound, &|| json!({"f": f, "g": g}), &base, || A::compose(f, g), iso_or_same_failure, |a, b| a == b);
    let base = V::tensor(f, g).map(Some);
    explore(loc, "tensor", bound, &|| json!({"f": f, "g": g}), &base, || A::tensor(f, g).map(Some), iso_or_same_failure, |a, b| a == b);
    loc.sample(|| json!({"f": f, "g": g}));
}

pub fn check_functor(f: &P, tf: TF, bound: usize, loc: &mut Local) {
    let base = V::functor_apply(f, tf).map(Some);
    explore(loc, "functor", bound, &|| json!({"f": f, "functor": tf}), &base, || A::functor_apply(f, tf).map(Some), iso_or_same_failure, |a, b| a == b);
}

pub fn check_optic(f: &P, o: Arc<dyn PlainOptic>, tag: &Value, bound: usize, loc: &mut Local) {
    let base = V::optic_apply(f, o.clone());
    let same = |a: &Res<(P, P)>, b: &Res<(P, P)>| match (a, b) {
        (Ok(x), Ok(y)) => iso(&x.0, &y.0) && iso(&x.1, &y.1),
        (Err(_), Err(_)) => true,
        _ => false,
    };
    explore(loc, "optic", bound, &|| json!({"f": f, "optic": tag}), &base, || A::optic_apply(f, o.clone()), same, |a, b| a == b);
}

pub fn check_layer(f: &P, bound: usize, loc: &mut Local) {
    let dep = f.op_dep();
    let base = V::layer(f);
    // layer validity rather than equality
    let valid = |r: &Res<(Vec<usize>, Vec<usize>)>| match r {
        Ok((o, u)) => layering_ok(&dep, o, u).is_ok(),
        Err(_) => false,
    };
    let vb = valid(&base);
    explore(loc, "layer", bound, &|| json!({"f": f}), &base, || A::layer(f), |a, _| valid(a) == vb && (vb || a.is_err() == base.is_err()), |a, b| a == b);
    // grouped form: judged by the C15 oracle against the SAME backend's layer() under the same tape
    let grouped_ok = |l: &Res<(Vec<usize>, Vec<usize>)>, g: &Res<(Vec<Vec<usize>>, Vec<usize>)>| -> Option<bool> {
        match (l, g) {
            (Ok((order, unv)), Ok((groups, unv2))) => {
                let n = f.edges.len();
                Some(unv == unv2 && groups.iter().flatten().all(|&x| x < n) && (0..n).all(|v| {
                    unv[v] == 1 || {
                        let occ: Vec<usize> = groups.iter().enumerate().filter(|(_, g)| g.contains(&v)).map(|(i, _)| i).collect();
                        let times: usize = groups.iter().map(|g| g.iter().filter(|&&x| x == v).count()).sum();
                        times == 1 && occ == vec![order[v]]
                    }
                }))
            }
            _ => None,
        }
    };
    let base = (V::layer(f), V::layered_operations(f));
    let gb = grouped_ok(&base.0, &base.1);
    explore(loc, "layered_operations", bound, &|| json!({"f": f}), &base, || (A::layer(f), A::layered_operations(f)), |a, b| grouped_ok(&a.0, &a.1) == gb && a.1.is_err() == b.1.is_err(), |a, b| a == b);
    loc.sample(|| json!({"f": f}));
}

pub fn check_eval(f: &P, interp: &(dyn Fn(&u8, &[u64]) -> Vec<u64> + Sync), bound: usize, loc: &mut Local) {
    let k = f.s.len();
    // Values are only specified when every node is written at most once (C16's precondition; a
    // never-written node is fine: it holds the default value on every backend). When a node has
    // several writers in one layer the surviving value legitimately depends on the order in which
    // a backend lists that layer, so only "returns a result or refuses" is compared there.
    let mut writers = vec![0usize; f.nodes.len()];
    for &v in &f.s {
        writers[v] += 1;
    }
    for e in &f.edges {
        for &v in &e.tgt {
            writers[v] += 1;
        }
    }
    let single_writer = writers.iter().all(|&w| w <= 1);
    for vi in 0..2u64.pow(k as u32) {
        let inputs: Vec<u64> = (0..k).map(|p| 5 + 3 * ((vi >> p) & 1) + p as u64).collect();
        let norm = |r: Res<(Option<Vec<u64>>, Vec<(u8, Vec<u64>)>)>| r.map(|(o, mut c)| {
            c.sort();
            if single_writer {
                (o, c)
            } else {
                (o.map(|_| vec![]), vec![])
            }
        });
        let base = norm(V::eval(f, &inputs, interp));
        explore(loc, "eval", bound, &|| json!({"f": f, "inputs": inputs, "single_writer": single_writer}), &base, || norm(A::eval(f, &inputs, interp)), |a, b| a == b || (a.is_err() && b.is_err()), |a, b| a == b);
    }
    loc.sample(|| json!({"f": f}));
}

pub fn check_predicates(f: &P, bound: usize, loc: &mut Local) {
    let base = (V::is_acyclic(f, true), V::is_acyclic(f, false), V::is_monogamous(f), (0..f.nodes.len()).map(|v| V::degrees(f, v)).collect::<Vec<_>>());
    explore(loc, "predicates", bound, &|| json!({"f": f}), &base, || (A::is_acyclic(f, true), A::is_acyclic(f, false), A::is_monogamous(f), (0..f.nodes.len()).map(|v| A::degrees(f, v)).collect::<Vec<_>>()), |a, b| a == b, |a, b| a == b);
}

pub fn check_arrow(g: &P, h: &P, w: (&[usize], usize), x: (&[usize], usize), bound: usize, loc: &mut Local) {
    let base = V::arrow_new(g, h, w, x).map(|r| r.is_ok());
    explore(loc, "morphism-validation", bound, &|| json!({"G": g, "H": h, "w": w.0, "x": x.0}), &base, || A::arrow_new(g, h, w, x).map(|r| r.is_ok()), |a, b| a == b || (a.is_err() && b.is_err()), |a, b| a == b);
    if base == Ok(true) {
        let base = V::arrow_mono_convex(g, h, w, x);
        explore(loc, "mono/convex", bound, &|| json!({"G": g, "H": h, "w": w.0, "x": x.0}), &base, || A::arrow_mono_convex(g, h, w, x), |a, b| a == b || (a.is_err() && b.is_err()), |a, b| a == b);
    }
}
