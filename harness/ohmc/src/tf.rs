//! Test functors: a family of symmetric monoidal hypergraph functors given by an object map
//! `label -> list` and an operation-map *recipe* that yields, for any operation `x: A -> B`, a
//! diagram of type F(A) -> F(B). Plus the reference: literal substitution on the plain model.
use ohmc_core::plain::*;
use serde::Serialize;

type P = POpen<u8, u8>;
type L = PLax<u8, u8>;

#[derive(Clone, Copy, Debug, PartialEq, Eq, Hash, Serialize)]
pub struct TF {
    /// |F(0)|, |F(1)|, |F(2)| (a third node label is used by a few slices only)
    pub n: [usize; 3],
    /// 0 single operation, 1 two-stage composite, 2 spider-only merge, 3 disconnected (discard / create),
    /// 4 two-stage composite handed over as an un-quotiented lax composite (lax entry points only),
    /// 5 single operation whose ports are listed in the reverse order of the interface wires,
    /// 6 spider-only merge plus one isolated node (a closed "dot"; for an operation of F-type [] -> [] the dot alone),
    /// 7 single operation of unchanged arity whose equally labelled source wires share one node (likewise the targets):
    ///   a non-monogamous one-operation image,
    /// 8 single operation plus one isolated node
    pub recipe: u8,
}

pub fn all_tfs(max_len: usize, recipes: &[u8]) -> Vec<TF> {
    let mut v = vec![];
    for &r in recipes {
        for a in 0..=max_len {
            for b in 0..=max_len {
                v.push(TF { n: [a, b, (a + b + 1) % (max_len + 1)], recipe: r });
            }
        }
    }
    v
}

impl TF {
    pub fn obj(&self, l: u8) -> Vec<u8> {
        let l = l.min(2);
        (0..self.n[l as usize]).map(|k| 10 * (l + 1) + k as u8).collect()
    }
    pub fn objs(&self, ls: &[u8]) -> Vec<u8> {
        ls.iter().flat_map(|&l| self.obj(l)).collect()
    }
    /// image of the operation x: a -> b, as a lax diagram (pending pairs only for recipe 4)
    pub fn image(&self, x: u8, a: &[u8], b: &[u8]) -> L {
        let (fa, fb) = (self.objs(a), self.objs(b));
        match self.recipe {
            0 => L::strict(P::singleton(100 + x, &fa, &fb)),
            1 => L::strict(P::singleton(100 + x, &fa, &[50]).compose(&P::singleton(110 + x, &[50], &fb)).unwrap()),
            4 => {
                let (f, g) = (P::singleton(100 + x, &fa, &[50]), P::singleton(110 + x, &[50], &fb));
                let n = f.nodes.len();
                let mut j = f.tensor(&g);
                let quot: Vec<(usize, usize)> = f.t.iter().zip(g.s.iter()).map(|(&u, &v)| (u, v + n)).collect();
                j.s = f.s.clone();
                j.t = g.t.iter().map(|&v| v + n).collect();
                PLax { open: j, quot }
            }
            2 => {
                // one node per distinct label; every wire of that label is attached to it
                let mut labels: Vec<u8> = fa.iter().chain(fb.iter()).cloned().collect();
                labels.sort();
                labels.dedup();
                let pos = |l: &u8| labels.iter().position(|m| m == l).unwrap();
                L::strict(P { nodes: labels.clone(), edges: vec![], s: fa.iter().map(pos).collect(), t: fb.iter().map(pos).collect() })
            }
            5 => {
                let (na, nb) = (fa.len(), fb.len());
                let nodes: Vec<u8> = fa.iter().chain(fb.iter()).cloned().collect();
                L::strict(P { nodes, edges: vec![PEdge { label: 100 + x, src: (0..na).rev().collect(), tgt: (na..na + nb).rev().collect() }], s: (0..na).collect(), t: (na..na + nb).collect() })
            }
            6 => {
                let mut labels: Vec<u8> = fa.iter().chain(fb.iter()).cloned().collect();
                labels.sort();
                labels.dedup();
                let pos = |l: &u8| labels.iter().position(|m| m == l).unwrap();
                let (s, t) = (fa.iter().map(pos).collect(), fb.iter().map(pos).collect());
                let mut nodes = labels.clone();
                nodes.push(99);
                L::strict(P { nodes, edges: vec![], s, t })
            }
            7 => {
                let mut nodes: Vec<u8> = vec![];
                let mut place = |ls: &[u8], nodes: &mut Vec<u8>| -> Vec<usize> {
                    let base = nodes.len();
                    let mut seen: Vec<u8> = vec![];
                    ls.iter()
                        .map(|l| match seen.iter().position(|m| m == l) {
                            Some(p) => base + p,
                            None => {
                                seen.push(*l);
                                nodes.push(*l);
                                base + seen.len() - 1
                            }
                        })
                        .collect()
                };
                let s = place(&fa, &mut nodes);
                let t = place(&fb, &mut nodes);
                L::strict(P { nodes, edges: vec![PEdge { label: 100 + x, src: s.clone(), tgt: t.clone() }], s, t })
            }
            8 => {
                let mut p = P::singleton(100 + x, &fa, &fb);
                p.nodes.push(98);
                L::strict(p)
            }
            _ => L::strict(P::singleton(120 + x, &fa, &[]).tensor(&P::singleton(130 + x, &[], &fb))),
        }
    }
    pub fn image_strict(&self, x: u8, a: &[u8], b: &[u8]) -> P {
        self.image(x, a, b).strictify().expect("images are label consistent")
    }

    /// Reference: generator-wise substitution on the plain model.
    pub fn substitute(&self, f: &P) -> P {
        substitute_with(f, &|l| self.obj(l), &|x, a, b| self.image_strict(x, a, b))
    }
}

/// Literal substitution: every node labelled l becomes the block of nodes `obj(l)`, every hyperedge
/// the diagram `image(label, source types, target types)` glued along the expanded source and
/// target lists, both interfaces are expanded likewise.
pub fn substitute_with(f: &P, obj: &dyn Fn(u8) -> Vec<u8>, image: &dyn Fn(u8, &[u8], &[u8]) -> P) -> P {
    let mut nodes: Vec<u8> = vec![];
    let mut off: Vec<usize> = vec![];
    let mut len: Vec<usize> = vec![];
    for &l in &f.nodes {
        off.push(nodes.len());
        let o = obj(l);
        len.push(o.len());
        nodes.extend(o);
    }
    let expand = |vs: &Vec<usize>| -> Vec<usize> { vs.iter().flat_map(|&v| (0..len[v]).map(move |k| (v, k))).map(|(v, k)| off[v] + k).collect() };
    let mut edges: Vec<PEdge<u8>> = vec![];
    let mut pairs: Vec<(usize, usize)> = vec![];
    for e in &f.edges {
        let a: Vec<u8> = e.src.iter().map(|&v| f.nodes[v]).collect();
        let b: Vec<u8> = e.tgt.iter().map(|&v| f.nodes[v]).collect();
        let img = image(e.label, &a, &b);
        let base = nodes.len();
        nodes.extend(img.nodes.iter().cloned());
        for ie in &img.edges {
            edges.push(PEdge { label: ie.label, src: ie.src.iter().map(|v| v + base).collect(), tgt: ie.tgt.iter().map(|v| v + base).collect() });
        }
        let (es, et) = (expand(&e.src), expand(&e.tgt));
        assert_eq!(es.len(), img.s.len(), "image has the wrong source arity");
        assert_eq!(et.len(), img.t.len(), "image has the wrong target arity");
        for (i, &v) in es.iter().enumerate() {
            pairs.push((v, img.s[i] + base));
        }
        for (j, &v) in et.iter().enumerate() {
            pairs.push((v, img.t[j] + base));
        }
    }
    let glued = P { nodes, edges, s: expand(&f.s), t: expand(&f.t) };
    let (q, k) = classes(glued.nodes.len(), &pairs);
    glued.map_nodes_through(&q, k).expect("substitution is label consistent")
}

// ---------------------------------------------------------------------------------------------
// optics on the plain model

/// An optic given in plain terms: forward and reverse object maps, per-operation residual type,
/// forward image `fwd(x): F(A) -> F(B) ● M(x)` and reverse image `rev(x): M(x) ● R(B) -> R(A)`.
pub trait PlainOptic: Send + Sync {
    fn fobj(&self, l: u8) -> Vec<u8>;
    fn robj(&self, l: u8) -> Vec<u8>;
    fn residual(&self, x: u8) -> Vec<u8>;
    fn fwd(&self, x: u8, a: &[u8], b: &[u8]) -> P;
    fn rev(&self, x: u8, a: &[u8], b: &[u8]) -> P;
}

pub fn fobjs(o: &dyn PlainOptic, ls: &[u8]) -> Vec<u8> {
    ls.iter().flat_map(|&l| o.fobj(l)).collect()
}
pub fn robjs(o: &dyn PlainOptic, ls: &[u8]) -> Vec<u8> {
    ls.iter().flat_map(|&l| o.robj(l)).collect()
}

/// reference image of one operation under the optic functor: type interleave(FA, RA) -> interleave(FB, RB);
/// forward and reverse part share the residual nodes, R(A) is bent to the source side
pub fn optic_image(o: &dyn PlainOptic, x: u8, a: &[u8], b: &[u8]) -> P {
    let fw = o.fwd(x, a, b);
    let rv = o.rev(x, a, b);
    let m = o.residual(x).len();
    let fbl = fobjs(o, b).len();
    assert_eq!(fw.t.len(), fbl + m, "forward image must have type F(A) -> F(B) ● M");
    assert_eq!(rv.s.len(), m + robjs(o, b).len(), "reverse image must have type M ● R(B) -> R(A)");
    let n = fw.nodes.len();
    let j = fw.tensor(&rv);
    // glue the residual wires
    let pairs: Vec<(usize, usize)> = (0..m).map(|k| (fw.t[fbl + k], rv.s[k] + n)).collect();
    // interfaces: per source wire i: F(A_i) from fwd.s then R(A_i) from rev.t ; per target wire j: F(B_j) from fwd.t then R(B_j) from rev.s
    let mut s = vec![];
    let (mut pf, mut pr) = (0, 0);
    for &l in a {
        for _ in 0..o.fobj(l).len() {
            s.push(fw.s[pf]);
            pf += 1;
        }
        for _ in 0..o.robj(l).len() {
            s.push(rv.t[pr] + n);
            pr += 1;
        }
    }
    let mut t = vec![];
    let (mut pf, mut pr) = (0, m);
    for &l in b {
        for _ in 0..o.fobj(l).len() {
            t.push(fw.t[pf]);
            pf += 1;
        }
        for _ in 0..o.robj(l).len() {
            t.push(rv.s[pr] + n);
            pr += 1;
        }
    }
    let glued = P { nodes: j.nodes, edges: j.edges, s, t };
    let (q, k) = classes(glued.nodes.len(), &pairs);
    glued.map_nodes_through(&q, k).expect("residual types of forward and reverse image agree")
}

/// reference optic image of a diagram: substitution with object map l -> F(l) ++ R(l)
pub fn optic_reference(o: &dyn PlainOptic, f: &P) -> P {
    substitute_with(f, &|l| [o.fobj(l), o.robj(l)].concat(), &|x, a, b| optic_image(o, x, a, b))
}

/// reference adapted form: same hypergraph, type F(A) ● R(B) -> F(B) ● R(A)
pub fn optic_adapt_reference(o: &dyn PlainOptic, c: &P, a: &[u8], b: &[u8]) -> P {
    let split = |ifc: &Vec<usize>, ls: &[u8]| -> (Vec<usize>, Vec<usize>) {
        let (mut f, mut r) = (vec![], vec![]);
        let mut p = 0;
        for &l in ls {
            for _ in 0..o.fobj(l).len() {
                f.push(ifc[p]);
                p += 1;
            }
            for _ in 0..o.robj(l).len() {
                r.push(ifc[p]);
                p += 1;
            }
        }
        assert_eq!(p, ifc.len());
        (f, r)
    };
    let (fa, ra) = split(&c.s, a);
    let (fb, rb) = split(&c.t, b);
    P { nodes: c.nodes.clone(), edges: c.edges.clone(), s: [fa, rb].concat(), t: [fb, ra].concat() }
}
