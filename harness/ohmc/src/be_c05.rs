// C05 (iii) — the checked constructors of hypergraphs and open hypergraphs accept exactly the
// documented data, and a rejection names a condition that is really false. (included per backend)

pub struct C05Raw {
    pub count: u64,
}

impl C05Raw {
    pub fn new() -> C05Raw {
        // ns, nt, nx in 0..3 ; cs, ct, nw in 0..4 ; leg codomains ls, lt in 0..4 ; leg lengths 0..2
        C05Raw { count: 3 * 3 * 3 * 4 * 4 * 4 * 4 * 4 }
    }

    pub fn run(&self, i: u64, loc: &mut ohmc_core::explore::Local) {
        let r = catch(|| self.case(i));
        loc.trans(2);
        match r {
            Ok(Ok(nt)) => {
                if nt {
                    loc.nontrivial();
                }
                loc.outcome(&nt);
            }
            Ok(Err(m)) => loc.violation("wrong:checked-constructor", serde_json::json!({"index": i, "why": m, "backend": BACKEND_NAME})),
            Err(p) => loc.violation("panic:checked-constructor", serde_json::json!({"index": i, "panic": p, "backend": BACKEND_NAME})),
        }
        loc.sample(|| serde_json::json!({"raw-constructor-case": i}));
    }

    fn case(&self, mut i: u64) -> Result<bool, String> {
        let mut take = |r: u64| {
            let d = (i % r) as usize;
            i /= r;
            d
        };
        let (ns, nt, nx) = (take(3), take(3), take(3));
        let (cs, ct, nw) = (take(4), take(4), take(4));
        let (ls, lt) = (take(4), take(4));
        // segments: ns source lists / nt target lists, each [0] if the codomain allows, else []
        let mk = |n: usize, c: usize| -> IC<FF> { seg(&(0..n).map(|k| if c > 0 { vec![k % c] } else { vec![] }).collect::<Vec<_>>(), c) };
        let w: SF<u8> = sf(&vec![1u8; nw]);
        let x: SF<u8> = sf(&vec![2u8; nx]);
        use open_hypergraphs::strict::hypergraph::InvalidHypergraph as IH;
        use open_hypergraphs::strict::open_hypergraph::InvalidOpenHypergraph as IO;
        let h_ok = ns == nx && nt == nx && cs == nw && ct == nw;
        let named_true = |e: &IH<K>| -> bool {
            match e {
                IH::SourcesCount(a, b) => ns != nx && *a == ns && *b == nx,
                IH::TargetsCount(a, b) => nt != nx && *a == nt && *b == nx,
                IH::SourcesSet(a, b) => cs != nw && *a == cs && *b == nw,
                IH::TargetsSet(a, b) => ct != nw && *a == ct && *b == nw,
            }
        };
        match SHyper::<u8, u8>::new(mk(ns, cs), mk(nt, ct), w.clone(), x.clone()) {
            Ok(h) => {
                ensure(h_ok, || format!("Hypergraph::new accepted {} source lists / {} target lists for {} edges, incidence codomains {}/{} for {} nodes", ns, nt, nx, cs, ct, nw))?;
                decode_hyper(&h)?;
            }
            Err(e) => {
                ensure(!h_ok, || format!("Hypergraph::new rejected valid data: {:?}", e))?;
                ensure(named_true(&e), || format!("Hypergraph::new names a condition that does not fail: {:?} (counts {}/{}/{}, codomains {}/{}/{})", e, ns, nt, nx, cs, ct, nw))?;
            }
        }
        // open hypergraph: legs with declared codomains ls / lt (entries in range of their own codomain)
        let leg = |c: usize| -> FF { ff(&(0..c.min(2)).collect::<Vec<_>>(), c) };
        let h = strict::Hypergraph { s: mk(ns, cs), t: mk(nt, ct), w, x };
        let o_ok = h_ok && ls == nw && lt == nw;
        match SOpen::<u8, u8>::new(leg(ls), leg(lt), h) {
            Ok(f) => {
                ensure(o_ok, || format!("OpenHypergraph::new accepted leg codomains {}/{} for {} nodes (hypergraph valid: {})", ls, lt, nw, h_ok))?;
                decode_open(&f)?;
            }
            Err(e) => {
                ensure(!o_ok, || format!("OpenHypergraph::new rejected valid data: {:?}", e))?;
                let fine = match &e {
                    IO::CospanSourceType(a, b) => ls != nw && *a == ls && *b == nw,
                    IO::CospanTargetType(a, b) => lt != nw && *a == lt && *b == nw,
                    IO::InvalidHypergraph(ih) => named_true(ih),
                };
                ensure(fine, || format!("OpenHypergraph::new names a condition that does not fail: {:?}", e))?;
            }
        }
        Ok(!o_ok)
    }
}
