//! Plain unit tests replaying, without the explorer, the concrete inputs of the five defects found
//! on the pinned tree (all repaired by `fix:` commits; see /verif/known_findings.json).
use ohmc::laxconv::*;
use ohmc::onvec::*;
use ohmc::ops::StrictOps;
use ohmc::props::c19::Sig;
use ohmc_core::plain::*;
use open_hypergraphs::lax::var::forget;
use open_hypergraphs::lax::NodeId;

fn d1_diagram() -> POpen<u8, u8> {
    // op0: 0 -> 3 feeding op1: 3 -> 0
    POpen { nodes: vec![0, 0, 0], edges: vec![PEdge { label: 0, src: vec![], tgt: vec![0, 1, 2] }, PEdge { label: 1, src: vec![0, 1, 2], tgt: vec![] }], s: vec![], t: vec![] }
}

#[test]
fn d1_multiplicity_above_vertex_count() {
    let f = d1_diagram();
    let (order, unvisited) = B::layer(&f).expect("layer must return");
    assert_eq!(unvisited, vec![0, 0]);
    assert!(order[1] > order[0]);
    assert_eq!(B::is_acyclic(&f, true), Ok(true));
    let r = B::eval(&f, &[], &|l: &u8, _a: &[u64]| if *l == 0 { vec![1, 2, 3] } else { vec![] }).expect("eval must return");
    assert_eq!(r.0, Some(vec![]));
}

#[test]
fn d2_isolated_node_monogamy() {
    let f: POpen<u8, u8> = POpen { nodes: vec![0], edges: vec![], s: vec![], t: vec![] };
    assert_eq!(B::is_monogamous(&f), Ok(false));
}

#[test]
fn d3_iterator_reports_remaining_length() {
    let mut it = seg(&[vec![0], vec![1, 0]], 2).into_iter();
    assert_eq!(it.len(), 2);
    it.next();
    assert_eq!(it.len(), 1);
    assert_eq!(it.size_hint(), (1, Some(1)));
    it.next();
    assert_eq!(it.len(), 0);
}

#[test]
fn d4_failed_quotient_is_atomic() {
    let mut h = build_lax(&PLax { open: POpen::<u8, u8> { nodes: vec![0, 1], edges: vec![], s: vec![0], t: vec![1] }, quot: vec![] });
    h.unify(NodeId(0), NodeId(1));
    let before = h.clone();
    assert!(h.quotient().is_err());
    assert_eq!(h, before);
}

#[test]
fn d5_forget_with_empty_sources() {
    let t = build_lax(&PLax { open: POpen::<u8, Sig> { nodes: vec![0, 1], edges: vec![PEdge { label: Sig(0), src: vec![], tgt: vec![0, 1] }], s: vec![], t: vec![0, 1] }, quot: vec![] });
    let f = forget::forget(&t);
    assert_eq!(f.hypergraph.edges.len(), 1, "a variable hyperedge with differently labelled nodes is kept");
}
